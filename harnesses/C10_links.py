"""C10.b-d - runtime expressions, status matching of links, extraction of link data.

Real code executed symbolically: schemathesis.specs.openapi.expressions.lexer.tokenize, parser.parse/_parse/_parse_variable/_parse_request/
_parse_response/take_string/take_extractor, nodes.*.evaluate, expressions.evaluate/_evaluate_nested; OpenApiLink.extract_parameters /
extract_body / _normalize_parameters / _get_parameter_container; create_state_machine's response matchers (make_response_filter,
match_status_code, default_status_code) - the latter as z3 integer tables over every status 100..599.
"""
from vf.h import *
from vf.util import mk_case, pick

import z3

import schemathesis
from schemathesis.core.transforms import UNRESOLVABLE
from schemathesis.core.transport import Response
from schemathesis.generation.stateful.state_machine import StepOutput
from schemathesis.specs.openapi import expressions
from schemathesis.specs.openapi.expressions import lexer, parser
from schemathesis.specs.openapi.stateful import create_state_machine
from schemathesis.specs.openapi.stateful.links import get_all_links

_OK = {"description": "OK"}
RAW = {"openapi": "3.0.2", "info": {"title": "t", "version": "1"}, "paths": {
    "/users": {"post": {"operationId": "createUser", "parameters": [{"name": "q", "in": "query", "schema": {"type": "string"}},
                                                                      {"name": "X-H", "in": "header", "schema": {"type": "string"}}],
                        "requestBody": {"content": {"application/json": {"schema": {"type": "object"}}}},
                        "responses": {
                            "201": {"description": "c", "links": {"get": {"operationId": "getUser", "parameters": {"id": "$response.body#/id", "path.id": "$response.body#/id"}},
                                                                   "patch": {"operationId": "patchUser", "parameters": {"id": "$response.body#/id", "query.v": "$request.query.q"},
                                                                             "requestBody": {"name": "$response.body#/name", "fixed": 7, "n": {"k": "$request.header.X-H"}, "members": [{"id": "$response.body#/id"}, "lit"]}}}},
                            "4XX": {"description": "e", "links": {"again": {"operationId": "createUser", "parameters": {"q": "$statusCode"}}}},
                            "409": {"description": "conflict"},
                            "5xx": {"description": "down"},
                            "default": {"description": "d", "links": {"fallback": {"operationId": "getUser", "parameters": {"id": "x{$method}y"}}}},
                        }}},
    "/users/{id}": {"parameters": [{"name": "id", "in": "path", "required": True, "schema": {"type": "string"}}],
                    "get": {"operationId": "getUser", "responses": {"200": _OK}},
                    "patch": {"operationId": "patchUser", "parameters": [{"name": "v", "in": "query", "schema": {"type": "string"}}],
                              "requestBody": {"content": {"application/json": {"schema": {"type": "object"}}}}, "responses": {"200": _OK}}},
}}
SCHEMA = schemathesis.openapi.from_dict(RAW)
SOURCE = SCHEMA["/users"]["POST"]
LINKS = {name: link.ok() for _, link in get_all_links(SOURCE) for name in [link.ok().name]}


class Resp:
    """Response stand-in: status, one header, a parsed JSON body (nothing is serialised)."""

    def __init__(self, status, body, header):
        self.status_code, self._body, self.headers = status, body, {"x-token": [header]} if header is not None else {}

    def json(self):
        return self._body


def make_output(status=201, body=None, header="T", query=None, req_header=None, req_body=None):
    case = mk_case(SOURCE, "src", query=query, headers=req_header, body=req_body if req_body is not None else {"in": 1}, media_type="application/json")
    return StepOutput(response=Resp(status, body if body is not None else {"id": 5, "name": "n", "a/b": 1, "m~n": 2, "l": [10, 11]}, header), case=case)


N = tier(3, 4)


def tokens_cover_input(expr: str) -> bool:
    """
    pre: len(expr) <= N
    post: _
    """
    # lexing loses nothing: the token texts concatenate back to the expression, ends are increasing positions inside it
    tokens = list(lexer.tokenize(expr))
    if "".join(t.value for t in tokens) != expr:
        return False
    pos = -1
    for t in tokens:
        if t.end <= pos or t.end >= len(expr) or t.value == "":
            return False
        pos = t.end
    return True


STEMS = ["", "$method", "$statusCode", "$request.query.", "$request.header.", "$response.header.", "$response.body#", "$request.body#", "a{$request.query.q}", "$request.path."]
STEM = STEMS[param(0) % len(STEMS)]
AFF = "q/~}{#.$ai0"


def _plain(s: str) -> bool:
    return all(c not in "${}#" for c in s)


def evaluate_reference(affix: str) -> bool:
    """
    pre: len(affix) <= NA and all(c in AFF for c in affix)
    post: _
    """
    expr = STEM + affix
    out = make_output(query={"q": "QV", "i": "IV"}, req_header={"X-H": "HV", "a": "AV"})
    try:
        got = expressions.evaluate(expr, out)
        raised = False
    except Exception:
        got, raised = None, True
    body = {"id": 5, "name": "n", "a/b": 1, "m~n": 2, "l": [10, 11]}
    if STEM == "":
        if _plain(affix):
            return not raised and got == affix  # constants evaluate to themselves
        return True  # expressions starting in the symbolic part: covered by the stems below
    if STEM in ("$method", "$statusCode"):
        value = "POST" if STEM == "$method" else "201"
        if affix == "":
            return not raised and got == value
        if _plain(affix) and affix[0] != ".":
            # '$methodq' is an unknown variable; '$method.x' is outside this oracle
            return raised or got == value + affix
        return True
    if STEM in ("$request.query.", "$request.header.", "$response.header.", "$request.path."):
        if affix == "":
            return raised  # '$request.query.' alone is malformed
        if any(c in affix for c in "{}#"):
            return True  # embedding / extractor syntax: outside this oracle
        table = {"$request.query.": {"q": "QV", "i": "IV"}, "$request.header.": {"x-h": "HV", "a": "AV"}, "$response.header.": {"x-token": "T"}, "$request.path.": {}}[STEM]
        key = affix.lower() if "header" in STEM else affix
        want = table.get(key, UNRESOLVABLE)
        if not _plain(affix) or "." in affix:
            # trailing text after NAME ('$request.query.q.x', '$request.query.q$method'): either rejected as malformed, or (reading the
            # whole rest as the name, as the OpenAPI ABNF allows) the value of that parameter - never the value of a shorter name plus garbage
            return raised or got is want or got == want
        return not raised and (got is want or got == want)
    if STEM in ("$response.body#", "$request.body#"):
        if any(c in affix for c in "}{$"):
            return True
        document = body if STEM == "$response.body#" else {"in": 1}
        from schemathesis.core.transforms import resolve_pointer

        want = resolve_pointer(document, affix)  # C10.a decides resolve_pointer against RFC 6901
        return not raised and (got is want or got == want)
    if STEM == "a{$request.query.q}":
        if _plain(affix):
            return not raised and got == "aQV" + affix
        return True
    return True


NA = tier(2, 3)


def malformed_rejected(k: int) -> bool:
    """
    pre: 0 <= k < len(MALFORMED)
    post: _
    """
    # malformed expressions are rejected (as a schema error: _normalize_parameters turns any exception into one) instead of evaluating to something
    try:
        expressions.evaluate(pick(MALFORMED, k), make_output(query={"q": "QV"}))
        return False
    except Exception:
        return True


MALFORMED = ["$unknown", "$request", "$request.", "$request.query", "$request.query.", "$response.cookie.a", "{$method", "$method}", "{{$method}}", "$request.query.q#x",
             "$response.header.", "$request.body.x", "${method}"]


def constant_with_hash(prefix: str, suffix: str) -> bool:
    """
    pre: len(prefix) <= 2 and len(suffix) <= 2 and all(c in "ab/" for c in prefix + suffix)
    post: _
    """
    # a literal link value that merely contains '#' (an anchor, a colour, a fragment) denotes itself
    expr = prefix + "#" + suffix
    return expressions.evaluate(expr, make_output()) == expr


def link_extraction(body_id: int, has_id: bool, name: str, qv: str, has_q: bool, hv: str, has_h: bool, link: int) -> bool:
    """
    pre: -5 <= body_id <= 99 and len(name) <= 2 and len(qv) <= 2 and len(hv) <= 2 and 0 <= link <= 1
    post: _
    """
    # the derived request's parameters and body equal the evaluated expressions; unresolvable stays unresolvable
    body = {"name": name}
    if has_id:
        body["id"] = body_id
    out = make_output(status=201, body=body, query={"q": qv} if has_q else None, req_header={"X-H": hv} if has_h else None)
    lk = LINKS[pick(["get", "patch"], link)]
    params = lk.extract_parameters(out)
    want_id = body_id if has_id else UNRESOLVABLE

    def val(container, pname):
        p = params[container][pname]
        return p.value.ok()

    if val("path_parameters", "id") is not want_id and val("path_parameters", "id") != want_id:
        return False
    if link == 0:
        return lk.extract_body(out) is None and set(params) == {"path_parameters"}
    want_q = qv if has_q else UNRESOLVABLE
    got_q = val("query", "v")
    if got_q is not want_q and got_q != want_q:
        return False
    extracted = lk.extract_body(out).value.ok()
    if not has_h or not has_id:
        return extracted is UNRESOLVABLE  # a body with an unresolvable part (at any depth, also below an array) is never sent half-filled
    return extracted == {"name": name, "fixed": 7, "n": {"k": hv}, "members": [{"id": body_id}, "lit"]}



# ---------------------------------------------------------------------------------------------------------------
# the derived request: every resolvable link value (falsy ones included) is handed to the generator as a fixed value

from schemathesis.generation import GenerationMode
from schemathesis.specs.openapi import stateful as osf


class _LinkProxy:
    current = None

    def extract(self, output):
        return self.current.extract(output)

    @property
    def merge_body(self):
        return self.current.merge_body


class _TargetProxy:
    calls: list = []

    def as_strategy(self, **kwargs):
        self.calls.append(kwargs)
        return kwargs


_LINK, _TARGET = _LinkProxy(), _TargetProxy()
_LINK.current = LINKS["get"]
STEP_INPUT = osf.into_step_input(_TARGET, _LINK, [GenerationMode.POSITIVE])(None).wrapped_strategy.definition
ID_VALUES = [0, 5, -1, False, True, "", "0", "u1", None]


def derived_step(idx: int, has_id: bool, qv: str, has_q: bool, hv: str, has_h: bool, link: int) -> bool:
    """
    pre: 0 <= idx < len(ID_VALUES) and len(qv) <= 2 and len(hv) <= 1 and 0 <= link <= 1
    post: _
    """
    body_id = pick(ID_VALUES, idx)
    body = {"name": "n"}
    if has_id:
        body["id"] = body_id
    out = make_output(status=201, body=body, query={"q": qv} if has_q else None, req_header={"X-H": hv} if has_h else None)
    _LINK.current = LINKS[pick(["get", "patch"], link)]
    _TARGET.calls = []
    saved = osf.strategies.combine
    osf.strategies.combine = lambda items: items[0]
    try:
        step = STEP_INPUT(lambda kwargs: mk_case(_LINK.current.target, "d", **{k: v for k, v in kwargs.items() if k != "generation_mode"}), output=out)
    finally:
        osf.strategies.combine = saved
    if len(_TARGET.calls) != 1:
        return False
    kwargs = _TARGET.calls[0]
    # link-supplied values override generated ones: 0, False and '' are values like any other; only null / unresolvable are left to the generator
    want_path = {"id": body_id} if has_id and body_id is not None else {}
    got_path = kwargs.get("path_parameters", {})
    if set(got_path) != set(want_path) or any(got_path[k] is not want_path[k] and got_path[k] != want_path[k] for k in want_path):
        return False
    if "id" in got_path and type(got_path["id"]) is not type(body_id):
        return False
    if link == 0:
        return "body" not in kwargs and step.case.path_parameters == want_path
    if kwargs.get("query", {}) != ({"v": qv} if has_q else {}):
        return False
    expected = {"name": "n", "fixed": 7, "n": {"k": hv}, "members": [{"id": body_id}, "lit"]}
    if not has_h or not has_id:
        return "body" not in kwargs and not isinstance(step.case.body, dict)  # a body with an unresolvable part is never sent half-filled
    # the link's body reaches the derived case (handed to the generator, or merged into the generated body)
    return step.case.body == expected and ("body" not in kwargs or kwargs["body"] == expected)


def status_tables(replay=None):
    """E3: the response matchers of the assembled state machine vs the reading 'exact code, NXX range, default = no other documented code'."""
    import time

    t0 = time.time()
    machine = create_state_machine(SCHEMA)
    matcher = machine._response_matchers["POST /users"]
    documented = list(RAW["paths"]["/users"]["post"]["responses"])

    def bundle_for(code):
        return matcher(StepOutput(response=Resp(code, {}, None), case=None))

    if replay is not None:
        return bundle_for(replay["code"]) != replay["expected"]
    table = {code: bundle_for(code) for code in range(100, 600)}
    code = z3.Int("code")
    queries = unsat = 0
    violations, samples = [], []

    def documented_match(c):
        return z3.Or(*[(c / 100 == int(k[0])) if k.upper().endswith("XX") else (c == int(k)) for k in documented if k != "default"])

    reference = [
        ("POST /users -> 201", code == 201),
        ("POST /users -> 4XX", z3.And(code >= 400, code <= 499)),
        ("POST /users -> default", z3.Not(documented_match(code))),
    ]
    for name, ref in reference:
        in_table = z3.Or(*[code == c for c, b in table.items() if b == name]) if any(b == name for b in table.values()) else z3.BoolVal(False)
        # the matcher returns the FIRST matching bundle: a code matched by an earlier bundle is not expected here
        earlier = [r for n, r in reference[: [n for n, _ in reference].index(name)]]
        ref_here = z3.And(ref, *[z3.Not(e) for e in earlier]) if earlier else ref
        s = z3.Solver()
        s.add(code >= 100, code <= 599, in_table != ref_here)
        r = s.check()
        queries += 1
        if r == z3.unsat:
            unsat += 1
        elif r == z3.sat:
            c = s.model()[code].as_long()
            violations.append({"args": {"code": c, "bundle": name, "expected": table[c]},
                               "what": "status %d: matcher says %r, reference says membership in %r is %s" % (c, table[c], name, table[c] != name)})
        samples.append({"bundle": name, "codes_in_table": sum(1 for b in table.values() if b == name), "answer": str(r)})
    return {"queries": queries, "unsat": unsat, "sat": len(violations), "unknown": queries - unsat - len(violations), "violations": violations, "samples": samples,
            "solver_s": round(time.time() - t0, 1)}


_E = ["schemathesis.specs.openapi.expressions.lexer.tokenize", "schemathesis.specs.openapi.expressions.parser._parse", "schemathesis.specs.openapi.expressions.parser._parse_variable",
      "schemathesis.specs.openapi.expressions.parser._parse_request", "schemathesis.specs.openapi.expressions.parser._parse_response",
      "schemathesis.specs.openapi.expressions.nodes (String, Method, StatusCode, NonBodyRequest, BodyRequest, HeaderResponse, BodyResponse).evaluate",
      "schemathesis.specs.openapi.expressions.evaluate", "schemathesis.core.transforms.resolve_pointer"]
OBLIGATIONS = [
    Ob(fn="tokens_cover_input", clause="lexing a runtime expression loses no character (the '}' / '#' ambiguities included)", timeout={"quick": 200, "thorough": 600},
       functions=_E[:1], symbolic="the expression text (any characters)", bounds={"quick": "len <= 3", "thorough": "len <= 4"}),
    Ob(fn="evaluate_reference", clause="$method, $statusCode, $request.query/header/path.NAME, $response.header.NAME, $request/response.body#POINTER, embedded {...} and constants evaluate to what they denote on the actual request/response; unresolvable stays unresolvable",
       timeout={"quick": 200, "thorough": 600}, params=range(len(STEMS)), param_names=["stem %r" % s for s in STEMS], functions=_E,
       symbolic="the text following a concrete keyword stem, over the alphabet q / ~ } { # . $ a i 0", bounds={"quick": "affix <= 2 characters", "thorough": "<= 3"},
       stubs=["response is a stand-in with status / one header / parsed JSON body", "lru_cache of parser.parse skipped by CrossHair"], outside=["$url (requests' URL preparation)", "regex extractors"]),
    Ob(fn="malformed_rejected", clause="malformed expressions are rejected instead of evaluating to something", timeout=120, functions=_E[1:5], symbolic="which of 13 malformed expressions", bounds="13 expressions"),
    Ob(fn="constant_with_hash", clause="a literal value containing '#' is passed as it is", timeout=200, functions=_E[:2] + _E[6:7], symbolic="text before and after the '#'", bounds="<= 2 + 2 characters over a b /"),
    Ob(fn="link_extraction", clause="the derived request's parameters and body equal the values of the link's expressions (explicit 'in.name' and implicit locations, nested requestBody); unresolvable values are never sent",
       timeout={"quick": 300, "thorough": 600}, functions=["schemathesis.specs.openapi.stateful.links.OpenApiLink.extract_parameters", "schemathesis.specs.openapi.stateful.links.OpenApiLink.extract_body",
                                                            "schemathesis.specs.openapi.expressions._evaluate_nested"] + _E[6:7],
       symbolic="response body id (present or not), name text, source query / header values (present or not), which of two links", bounds="strings <= 2 characters, id in -5..99"),
    Ob(fn="derived_step", clause="link-supplied values override generated ones: every resolvable value - 0, false and the empty string included - is passed to the generator as the fixed value of its parameter / body; null and unresolvable ones are left to the generator",
       timeout={"quick": 300, "thorough": 600}, functions=["schemathesis.specs.openapi.stateful.into_step_input (composite body)", "schemathesis.specs.openapi.stateful.links.OpenApiLink.extract"],
       symbolic="which of 9 values (0, 5, -1, false, true, '', '0', 'u1', null) the source response holds under /id or its absence; source query / header text or absence; which of two links",
       bounds="strings <= 2 characters", stubs=["target.as_strategy replaced by a recorder of its keyword arguments", "draw() builds the case from those arguments", "strategies.combine of one mode returns it"]),
    Ob(fn="status_tables", kind="z3", clause="a link is followed only from a response whose status matches its key: exact code, NXX range, or default = no other documented code (documented codes without links included)",
       timeout=300, functions=["schemathesis.specs.openapi.stateful.create_state_machine", "schemathesis.specs.openapi.stateful.make_response_filter",
                               "schemathesis.specs.openapi.stateful.match_status_code", "schemathesis.specs.openapi.stateful.default_status_code", "schemathesis.specs.openapi.stateful.make_response_matcher"],
       symbolic="the response status (z3 Int) over [100, 599]", bounds="one operation documenting 201, 4XX, 409, 5xx, default with links under 201, 4XX and default"),
]
