"""C20 - GraphQL: the operations offered and counted are exactly the root query / mutation fields passing the name filters; each case is
generated for its own root type and field, under the requested settings.

Real code executed symbolically: GraphQLSchema.get_all_operations, _should_skip, _measure_statistic, _get_operation_map, FieldMap._init_operation,
graphql.OperationCache, the body of the `graphql_cases` composite (reached through CompositeStrategy.definition, stub draw).
Stub: hypothesis_graphql's queries()/mutations() are replaced by recorders of their arguments - validity of the documents that library
generates (judged by graphql-core) cannot be executed symbolically and is outside the claim.
"""
from vf.h import *
from vf import det
from vf.util import mk_case, pick, stable_hash

import schemathesis
from schemathesis import filters
from schemathesis.core import NOT_SET
from schemathesis.core.result import Ok
from schemathesis.generation import GenerationConfig
from schemathesis.specs.graphql import schemas as gs

filters.hash = stable_hash
det.pin(gs)
_SCALARS = gs.get_extra_scalar_strategies()
gs.get_extra_scalar_strategies = lambda: _SCALARS  # built once: constructing Hypothesis strategies mutates Hypothesis' global caches

SDL = """
type Query { v(id: Int): String  users(limit: Int!): [String!]!  ping: Boolean }
type Mutation { v(id: Int): String  createUser(name: String!): String }
type Subscription { ticks: Int }
"""
QUERY_FIELDS = ["v", "users", "ping"]
MUTATION_FIELDS = ["v", "createUser"]
ALL_LABELS = ["Query." + f for f in QUERY_FIELDS] + ["Mutation." + f for f in MUTATION_FIELDS]

FILTERS = [
    ("none", [], []),
    ("include name=Query.v", [{"name": "Query.v"}], []),
    ("include name list", [{"name": ["Query.users", "Mutation.v"]}], []),
    ("include name_regex ^Mutation", [{"name_regex": "^Mutation"}], []),
    ("exclude name=Mutation.createUser", [], [{"name": "Mutation.createUser"}]),
    ("exclude name_regex v\\Z", [], [{"name_regex": r"v\Z"}]),
    ("include ^Query exclude Query.ping", [{"name_regex": "^Query"}], [{"name": "Query.ping"}]),
    ("include nothing matching", [{"name": "Subscription.ticks"}], []),
]


def _ref(label: str, f: dict) -> bool:
    for key, want in f.items():
        if key == "name":
            if label not in (want if isinstance(want, list) else [want]):
                return False
        elif want == "^Mutation":
            if not label.startswith("Mutation"):
                return False
        elif want == "^Query":
            if not label.startswith("Query"):
                return False
        elif want == r"v\Z":
            if not label.endswith("v"):
                return False
    return True


BASE = schemathesis.graphql.from_file(SDL)
CLIENT = BASE.client_schema  # graphql-core builds it once, concretely (about 10 s per build under tracing)


def _fresh():
    """A schema object of its own (own caches / filters) sharing the already built graphql-core client schema."""
    schema = BASE.clone()
    schema._operation_cache = type(BASE._operation_cache)()
    schema._client_schema = CLIENT
    return schema


def selection_counts(k: int, k2: int) -> bool:
    """
    pre: 0 <= k < len(FILTERS) and 0 <= k2 < len(FILTERS)
    post: _
    """
    # two successive derivations (include/exclude chains), as the CLI / pytest plugin build them
    schema = _fresh()
    includes, excludes = [], []
    for idx in (k, k2):
        _, inc, exc = pick(FILTERS, idx)
        for f in inc:
            if f in includes or f in excludes:
                continue
            schema = schema.include(**f)
            schema._client_schema = CLIENT
            includes.append(f)
        for f in exc:
            if f in includes or f in excludes:
                continue
            schema = schema.exclude(**f)
            schema._client_schema = CLIENT
            excludes.append(f)
    offered = [r.ok().label for r in schema.get_all_operations() if isinstance(r, Ok)]
    want = [l for l in ALL_LABELS if not any(_ref(l, f) for f in excludes) and (not includes or any(_ref(l, f) for f in includes))]
    if offered != want:
        return False
    stat = schema.statistic
    # the 'selected / total' counts equal what is offered: root QUERY and MUTATION fields only (subscriptions are not tested)
    return stat.operations.selected == len(want) and stat.operations.total == len(ALL_LABELS)


LOOKUPS = [("Query", "v"), ("Mutation", "v"), ("Query", "users"), ("Mutation", "createUser"), ("Query", "ping")]


def lookup_by_root(a: int, b: int, c: int, iterate_first: bool) -> bool:
    """
    pre: 0 <= a < 5 and 0 <= b < 5 and 0 <= c < 5
    post: _
    """
    # schema[root][field] is that root's field, whatever was looked up before (the lookups share a cache)
    schema = _fresh()
    if iterate_first:
        list(schema.get_all_operations())
    for idx in (a, b, c):
        root, field = pick(LOOKUPS, idx)
        operation = schema[root][field]
        d = operation.definition
        if operation.label != "%s.%s" % (root, field) or d.field_name != field:
            return False
        if (d.root_type == gs.RootType.QUERY) != (root == "Query") or d.type_.name != root:
            return False
    return sorted(schema) == ["Mutation", "Query"]


T3MAX = tier(1, 5)  # quick: the third draw is always for Query.v


class Recorder:
    calls: list = []

    def __init__(self, kind, args, kwargs):
        self.kind, self.args, self.kwargs = kind, args, kwargs

    def map(self, f):
        return self

    def filter(self, f):
        return self

    def flatmap(self, f):
        return self


def _queries(*args, **kwargs):
    r = Recorder("queries", args, kwargs)
    Recorder.calls.append(r)
    return r


def _mutations(*args, **kwargs):
    r = Recorder("mutations", args, kwargs)
    Recorder.calls.append(r)
    return r


SCHEMA = schemathesis.graphql.from_file(SDL)
CASES_BODY = gs.graphql_cases(operation=SCHEMA["Query"]["users"], generation_config=GenerationConfig()).wrapped_strategy.definition


def _mk(*, operation, **kwargs):
    kwargs = {k: v for k, v in kwargs.items() if k not in ("method", "path")}
    kwargs["media_type"] = kwargs.get("media_type") or "application/json"
    return mk_case(operation, "case", **kwargs)


def generation_arguments(t1: int, null1: bool, x1: bool, t2: int, null2: bool, x2: bool, t3: int, null3: bool) -> bool:
    """
    pre: t1 == param(0) % 5 and 0 <= t2 < 5 and 0 <= t3 < T3MAX and x2
    post: _
    """
    # every draw asks the generator for exactly the field of ITS operation, on ITS root type, under the CURRENT settings
    schema = _fresh()
    schema.make_case = _mk
    saved = gs.gql_st.queries, gs.gql_st.mutations
    gs.gql_st.queries, gs.gql_st.mutations = _queries, _mutations
    Recorder.calls = []
    try:
        for idx, allow_null, allow_x00 in ((t1, null1, x1), (t2, null2, x2), (t3, null3, True)):
            root, field = pick(LOOKUPS, idx)
            operation = schema[root][field]
            config = GenerationConfig(graphql_allow_null=allow_null, allow_x00=allow_x00)
            case = CASES_BODY(lambda strategy: "{ doc }" if isinstance(strategy, Recorder) else None, operation=operation, generation_config=config)
            call = Recorder.calls[-1]
            if call.kind != ("queries" if root == "Query" else "mutations"):
                return False
            if call.kwargs.get("fields") != [field] or call.kwargs.get("allow_null") is not allow_null or call.kwargs.get("allow_x00") is not allow_x00:
                return False
            if case.body != "{ doc }" or case.operation is not operation or case.media_type != "application/json":
                return False
        return len(Recorder.calls) == 3
    finally:
        gs.gql_st.queries, gs.gql_st.mutations = saved



# ---------------------------------------------------------------------------------------------------------------
# built-in custom scalars: the text written for a drawn date / time is acceptable for the scalar (ISO 8601, zero-padded)

import datetime as _dt

from schemathesis.specs.graphql import scalars as _scalars


def _packs(strategy):
    """The chain of .map() functions applied to the base Hypothesis strategy, innermost first."""
    out = []
    while True:
        if hasattr(strategy, "mapped_strategy"):
            out.append(strategy.pack)
            strategy = strategy.mapped_strategy
        elif type(strategy).__name__ == "LazyStrategy":
            strategy = strategy.wrapped_strategy
        else:
            break
    return list(reversed(out)), strategy


_EXTRA = _SCALARS
DATE_PACKS, _ = _packs(_EXTRA["Date"])
TIME_PACKS, _ = _packs(_EXTRA["Time"])
DATETIME_PACKS, _DT_BASE = _packs(_EXTRA["DateTime"])
_DT_ELEMENT_PACKS = [_packs(e)[0] for e in _DT_BASE.element_strategies]
YEARS = [1, 9, 10, 99, 100, 999, 1000, 1970, 2024, 9999]
MICROS = [0, 1, 500000, 999999]


def _apply(packs, value):
    for f in packs:
        value = f(value)
    return value


def scalar_text(y: int, month: int, day: int, hour: int, us: int, which: int) -> bool:
    """
    pre: y == param(0) % len(YEARS) and month in (1, 9, 10, 12) and day in (1, 9, 10, 28) and hour in (0, 9, 10, 23) and 0 <= us < len(MICROS) and 0 <= which <= 2
    post: _
    """
    yy, mm, dd = pick(YEARS, y), pick([1, 9, 10, 12], [1, 9, 10, 12].index(month)), pick([1, 9, 10, 28], [1, 9, 10, 28].index(day))
    hh, micro = pick([0, 9, 10, 23], [0, 9, 10, 23].index(hour)), pick(MICROS, us)
    date, time = _dt.date(yy, mm, dd), _dt.time(hh, 5, 7, micro)
    # ISO 8601 (RFC 3339 full-date / partial-time): fixed-width, zero-padded fields; the fraction may be omitted when zero
    want_date = "%04d-%02d-%02d" % (yy, mm, dd)
    want_times = ["%02d:05:07.%06dZ" % (hh, micro)] + (["%02d:05:07Z" % hh] if micro == 0 else [])
    if which == 0:
        return _apply(DATE_PACKS, date).value == want_date
    if which == 1:
        return _apply(TIME_PACKS, time).value in want_times
    text = _apply(DATETIME_PACKS, (_apply(_DT_ELEMENT_PACKS[0], date), _apply(_DT_ELEMENT_PACKS[1], time))).value
    return text in [want_date + "T" + t for t in want_times]


# warm every lazily initialised cache (scalar strategies, hook dispatchers) once, outside tracing: CrossHair requires identical re-executions
selection_counts(1, 4)
lookup_by_root(0, 1, 2, True)

_F = ["schemathesis.specs.graphql.schemas.GraphQLSchema.get_all_operations", "schemathesis.specs.graphql.schemas.GraphQLSchema._should_skip",
      "schemathesis.specs.graphql.schemas.GraphQLSchema._measure_statistic", "schemathesis.specs.graphql.schemas.GraphQLSchema._get_operation_map",
      "schemathesis.specs.graphql.schemas.FieldMap._init_operation", "schemathesis.specs.graphql._cache.OperationCache", "schemathesis.filters.FilterSet.match"]
OBLIGATIONS = [
    Ob(fn="scalar_text", clause="values of the built-in Date / Time / DateTime scalars are acceptable for the declared type: the text written for a drawn date or time is zero-padded ISO 8601 that reads back as the same value",
       timeout=300, params=range(10), functions=["schemathesis.specs.graphql.scalars.get_extra_scalar_strategies (the .map() chains of Date, Time, DateTime)", "schemathesis.specs.graphql.nodes.String"],
       symbolic="year out of 10 (1, 9, 10, 99, 100, 999, 1000, 1970, 2024, 9999: every digit count), month / day / hour out of 4 each (1- and 2-digit), microseconds out of 4, which scalar",
       bounds="10 x 4 x 4 x 4 x 4 x 3 concrete dates / times (formatting goes through C code: values are picked from lists, not arbitrary)",
       stubs=["the Hypothesis base strategies (st.dates(), st.times()) are bypassed: their .map() functions are applied to the chosen value"]),
    Ob(fn="selection_counts", clause="the operations offered, and the selected/total counts, are exactly the root query and mutation fields that pass the name filters",
       timeout={"quick": 300, "thorough": 600}, params=None, functions=_F, symbolic="two successive filter derivations out of 8 (by value, list, regex; include and exclude)",
       bounds="8 x 8 filter chains over an SDL schema with 3 query, 2 mutation and 1 subscription field", stubs=["the graphql-core client schema is built once at import and shared by the schema objects created per path"]),
    Ob(fn="lookup_by_root", clause="each case targets the query or mutation field of the operation it was generated for: schema[root][field] is that root's field whatever was looked up before",
       timeout=300, functions=_F[3:6], symbolic="sequence of three (root, field) lookups incl. a field name present on both roots; iteration before or not", bounds="3 lookups over 5 targets"),
    Ob(fn="generation_arguments", clause="each case is generated for exactly the field and root type of its operation and under the current settings (nulls disabled => allow_null=False reaches the generator), whatever was drawn before",
       timeout={"quick": 300, "thorough": 900}, params=range(5), functions=["schemathesis.specs.graphql.schemas.graphql_cases (composite body)"] + _F[4:6],
       symbolic="three successive draws: target operation (5; first enumerated), graphql_allow_null, allow_x00", bounds={"quick": "3 draws, third target fixed", "thorough": "3 draws"},
       stubs=["hypothesis_graphql.queries / mutations replaced by recorders of their arguments", "draw() returns a fixed document", "clock and case id pinned", "extra scalar strategies built once at import"],
       outside=["syntactic / semantic validity of generated documents and argument values (hypothesis_graphql + graphql-core: not executable symbolically)"]),
]
