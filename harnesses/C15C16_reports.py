"""C16 - report files are well-formed and faithful to the traffic.

Real code executed symbolically: schemathesis.cli.commands.run.handlers.cassettes.write_double_quoted, vcr_writer (the whole hand-built YAML
document), CassetteWriter.handle_event; schemathesis.cli.commands.run.handlers.junitxml.JunitXMLHandler.handle_event, add_failure;
schemathesis.cli.commands.run.context.Statistic.on_scenario_finished.
Oracle for "valid YAML and faithful": PyYAML's own safe_load of the produced document (public meaning of the format), plus an independent
YAML 1.1 double-quoted-scalar decoder for write_double_quoted. Characters that cross a C boundary (json.dumps, PyYAML's reader) are
realised by CrossHair: those obligations are decided one character class per path, over a stated finite domain.
"""
from vf.h import *
from vf import det
from vf.util import concrete, mk_case, mk_interaction, pick, untraced

import io
import queue

import yaml

import schemathesis
from schemathesis.cli.commands.run.context import ExecutionContext
from schemathesis.cli.commands.run.handlers import cassettes, junitxml
from schemathesis.cli.commands.run.handlers.cassettes import Finalize, Initialize, Process
from schemathesis.core.failures import Failure
from schemathesis.core.transport import Response
from schemathesis.engine import Status, events
from schemathesis.engine.phases import PhaseName
from schemathesis.engine.recorder import CaseNode, Request, ScenarioRecorder
from schemathesis.generation import GenerationMode
from schemathesis.generation.meta import CaseMetadata, ComponentInfo, ComponentKind, GenerationInfo, PhaseInfo

det.pin(events)
_OK = {"responses": {"200": {"description": "OK"}}}
SCHEMA = schemathesis.openapi.from_dict({"openapi": "3.0.2", "info": {"title": "t", "version": "1"}, "paths": {"/a": {"get": dict(_OK)}, "/b": {"get": dict(_OK)}}})
OPS = [SCHEMA["/a"]["GET"], SCHEMA["/b"]["GET"]]

# ---------------------------------------------------------------------------------------------------------------
# write_double_quoted vs an independent YAML 1.1 double-quoted decoder

NAMED = {"0": "\0", "a": "\x07", "b": "\x08", "t": "\t", "\t": "\t", "n": "\n", "v": "\x0b", "f": "\x0c", "r": "\r", "e": "\x1b", " ": " ",
         '"': '"', "/": "/", "\\": "\\", "N": "\x85", "_": "\xa0", "L": " ", "P": " "}
HEX = "0123456789abcdefABCDEF"


def yaml_printable(c: str) -> bool:
    o = ord(c)
    return o in (0x9, 0xA, 0xD, 0x85) or 0x20 <= o <= 0x7E or 0xA0 <= o <= 0xD7FF or 0xE000 <= o <= 0xFFFD or 0x10000 <= o <= 0x10FFFF


def decode_double_quoted(body: str):
    """Decode the inside of a YAML 1.1 double-quoted scalar written on ONE line; None if it is not a valid single-line scalar."""
    out = []
    i = 0
    n = len(body)
    while i < n:
        c = body[i]
        if c == '"':
            return None  # unescaped quote ends the scalar early
        if c in "\n\r\x85  ":
            return None  # a raw line break would be folded
        if not yaml_printable(c) or c == "﻿":
            return None  # not allowed unescaped in a YAML stream
        if c != "\\":
            out.append(c)
            i += 1
            continue
        if i + 1 >= n:
            return None
        e = body[i + 1]
        width = {"x": 2, "u": 4, "U": 8}.get(e)
        if width is not None:
            digits = body[i + 2 : i + 2 + width]
            if len(digits) != width or any(d not in HEX for d in digits):
                return None
            out.append(chr(int(digits, 16)))
            i += 2 + width
        elif e in NAMED:
            out.append(NAMED[e])
            i += 2
        else:
            return None
    return "".join(out)


class Sink:
    def __init__(self):
        self.parts = []

    def write(self, s):
        self.parts.append(s)

    def getvalue(self):
        return "".join(self.parts)


CLASSES = ["printable ASCII", "C0 controls / DEL / C1 / NEL", "BMP text (Latin-1 .. U+FFFD, no surrogates)", "line/paragraph separators, BOM, U+FFFE/FFFF",
           "surrogates (sampled)", "astral (sampled)"]
CLS = param(0) % len(CLASSES)


def _in_class(c: str) -> bool:
    o = ord(c)
    if CLS == 0:
        return 0x20 <= o <= 0x7E
    if CLS == 1:
        return o < 0x20 or 0x7F <= o <= 0x9F
    if CLS == 2:
        return (0xA0 <= o <= 0xD7FF or 0xE000 <= o <= 0xFFFD) and o not in (0x2028, 0x2029, 0xFEFF)
    if CLS == 3:
        return o in (0x2028, 0x2029, 0xFEFF, 0xFFFE, 0xFFFF)
    if CLS == 4:
        return o in (0xD800, 0xDBFF, 0xDC00, 0xDFFF)
    return o in (0x10000, 0x1F600, 0x10FFFF)


NEIGHBOURS = ["", chr(34), chr(92), " "]


def double_quoted(text: str, lead: int, tail: int) -> bool:
    """
    pre: len(text) == 1 and _in_class(text) and 0 <= lead < len(NEIGHBOURS) and 0 <= tail < len(NEIGHBOURS)
    post: _
    """
    value = pick(NEIGHBOURS, lead) + text + pick(NEIGHBOURS, tail)
    sink = Sink()
    cassettes.write_double_quoted(sink, value)
    emitted = sink.getvalue()
    if len(emitted) < 2 or emitted[0] != '"' or emitted[len(emitted) - 1] != '"':
        return False
    return decode_double_quoted(emitted[1 : len(emitted) - 1]) == value


def double_quoted_none() -> bool:
    """
    post: _
    """
    sink = Sink()
    cassettes.write_double_quoted(sink, None)
    return sink.getvalue() == "null"


# ---------------------------------------------------------------------------------------------------------------
# the whole VCR document


class FakeFile:
    def __init__(self):
        self.stream = io.StringIO()

    def open(self):
        return self.stream

    def close(self):
        pass


def make_meta(kind: int):
    if kind == 0:
        return None
    if kind == 1:
        phase = PhaseInfo.generate()
    else:
        phase = PhaseInfo.coverage(description="Maximum length string: \"q\"", location="/query/q", parameter="q" if kind == 2 else None,
                                   parameter_location="query" if kind == 2 else None)
    return CaseMetadata(generation=GenerationInfo(time=0.25, mode=GenerationMode.POSITIVE),
                        components={ComponentKind.QUERY: ComponentInfo(mode=GenerationMode.NEGATIVE)}, phase=phase)


def load_yaml(text):
    return untraced(yaml.safe_load, concrete(text))  # raises if the cassette is not valid YAML


def run_vcr(recorder, sanitize: bool, preserve_bytes: bool) -> str:
    q = queue.Queue()
    for item in (Initialize(seed=42), Process(recorder=recorder), Finalize()):
        q.put(item)
    f = FakeFile()
    cassettes.vcr_writer(f, sanitize, preserve_bytes, q)
    return f.stream.getvalue()


def make_recorder(uri, method, req_headers, req_body, status_code, message, resp_headers, content, meta_kind, check_kind, no_response=False):
    recorder = ScenarioRecorder(label="GET /a")
    case = mk_case(OPS[0], "case1", meta=make_meta(meta_kind))
    recorder.cases["case1"] = CaseNode(value=case, parent_id=None, transition=None)
    request = Request(method=method, uri=uri, body=req_body, body_size=None if req_body is None else len(req_body), headers=req_headers)
    response = None if no_response else Response(status_code=status_code, headers=resp_headers, content=content, request=None, elapsed=0.5, verify=True,
                                                 message=message, encoding="utf-8")
    recorder.interactions["case1"] = mk_interaction(response, request=request, timestamp=1700000000.0)
    if check_kind == 1:
        recorder.record_check_success(name="not_a_server_error", case_id="case1")
    elif check_kind == 2:
        recorder.record_check_failure(name="not_a_server_error", case_id="case1", code_sample="curl",
                                      failure=Failure(operation="GET /a", title="Server error", message="m"))
    return recorder


URI_SAFE = "-._~:/?#[]@!$&'()*+,;=%"  # what requests' requote_uri leaves unencoded in a URL, besides alphanumerics


def vcr_uri(c: str, preserve_bytes: bool) -> bool:
    """
    pre: len(c) == 1 and (c in URI_SAFE or c in "aZ0")
    post: _
    """
    meta_kind, check_kind, sanitize = 1, 1, False  # sanitize_url on symbolic text is C15's subject (urllib is very slow under tracing)
    uri = "http://127.0.0.1/a/x" + c + "y?q=1"
    recorder = make_recorder(uri, "GET", {"Accept": ["*/*"]}, b"{}", 200, "OK", {"content-type": ["application/json"]}, b'{"a": 1}', meta_kind, check_kind)
    text = run_vcr(recorder, sanitize, preserve_bytes)
    doc = load_yaml(text)
    entries = doc["http_interactions"]
    if len(entries) != 1:
        return False
    e = entries[0]
    if e["id"] != "case1" or e["request"]["method"] != "GET" or e["response"]["status"]["code"] != "200":
        return False
    if not sanitize and e["request"]["uri"] != uri:
        return False
    want_status = {0: "SKIP", 1: "SUCCESS", 2: "FAILURE"}[check_kind]
    if e["status"] != want_status or len(e["checks"]) != (0 if check_kind == 0 else 1):
        return False
    if preserve_bytes:
        return e["response"]["body"]["base64_string"] == "eyJhIjogMX0="
    return e["response"]["body"]["string"] == '{"a": 1}' and e["request"]["body"]["string"] == "{}"


HV_SHAPE = param(0) % 4  # character range of the header value: 4 shards of latin-1


def vcr_header_value(c: str, in_response: bool, sanitize: bool) -> bool:
    """
    pre: len(c) == 1 and HV_SHAPE * 64 <= ord(c) < HV_SHAPE * 64 + 64 and c not in chr(10) + chr(13) + chr(0)
    post: _
    """
    value = "v" + c + "w"
    req_headers = {"X-Plain": ["a"] if in_response else [value], "Accept": ["*/*"]}
    resp_headers = {"x-plain": [value] if in_response else ["a"]}
    recorder = make_recorder("http://127.0.0.1/a", "GET", req_headers, None, 200, "OK", resp_headers, b"", 1, 1)
    doc = load_yaml(run_vcr(recorder, sanitize, False))
    e = doc["http_interactions"][0]
    got = e["response"]["headers"]["x-plain"] if in_response else e["request"]["headers"]["X-Plain"]
    return got == [value] and e["request"]["headers"]["Accept"] == ["*/*"]


def vcr_shapes(meta_kind: int, check_kind: int, no_response: bool, has_body: bool, sanitize: bool, preserve_bytes: bool, n_cases: int) -> bool:
    """
    pre: 0 <= meta_kind <= 3 and 0 <= check_kind <= 2 and 1 <= n_cases <= 2
    post: _
    """
    # every case-metadata shape, with and without a response (network error), with and without bodies: valid YAML, one entry per exchange
    recorder = make_recorder("http://127.0.0.1/a?x=1", "POST", {"Content-Type": ["application/json"]}, b'{"k": "v"}' if has_body else None,
                             500, "Internal Server Error", {"content-type": ["text/plain"]}, b"oops" if has_body else b"", meta_kind, check_kind, no_response)
    if n_cases == 2:
        case2 = mk_case(OPS[1], "case2", meta=make_meta(1))
        recorder.cases["case2"] = CaseNode(value=case2, parent_id="case1", transition=None)
        recorder.interactions["case2"] = mk_interaction(Response(status_code=204, headers={}, content=b"", request=None, elapsed=0.1, verify=True, message="No Content", encoding=None),
                                                        request=Request(method="GET", uri="http://127.0.0.1/b", body=None, body_size=None, headers={}), timestamp=1700000001.0)
    doc = load_yaml(run_vcr(recorder, sanitize, preserve_bytes))
    entries = doc["http_interactions"]
    if [e["id"] for e in entries] != ["case1", "case2"][:n_cases]:
        return False
    e = entries[0]
    if no_response:
        if e["response"] is not None or e["status"] != "ERROR":
            return False
    elif e["response"]["status"]["code"] != "500" or e["response"]["status"]["message"] != "Internal Server Error":
        return False
    if e["request"]["method"] != "POST" or e["request"]["uri"] != "http://127.0.0.1/a?x=1":
        return False
    if meta_kind == 0:
        if "generation" in e and e["generation"] is not None:
            return False
    else:
        if e["generation"]["mode"] != "positive" or e["components"]["query"]["mode"] != "negative":
            return False
        if meta_kind >= 2 and e["phase"]["data"]["description"] != 'Maximum length string: "q"':
            return False
    if has_body and not preserve_bytes and e["request"]["body"]["string"] != '{"k": "v"}':
        return False
    return True


# ---------------------------------------------------------------------------------------------------------------
# handlers: every delivered exchange reaches the cassette writer; JUnit never crashes


def cassette_handler(status: int, is_final: bool, n: int) -> bool:
    """
    pre: 0 <= status <= 4 and 1 <= n <= 2
    post: _
    """
    det.reset()
    writer = object.__new__(cassettes.CassetteWriter)  # without starting the writer thread
    writer.queue = queue.Queue()
    ctx = ExecutionContext()
    recorders = []
    for k in range(n):
        rec = ScenarioRecorder(label="GET /a")
        recorders.append(rec)
        st = pick([Status.SUCCESS, Status.FAILURE, Status.ERROR, Status.SKIP, Status.INTERRUPTED], status)
        writer.handle_event(ctx, events.ScenarioStarted(label="GET /a", phase=PhaseName.FUZZING, suite_id=None))
        writer.handle_event(ctx, events.ScenarioFinished(id=None, suite_id=None, phase=PhaseName.STATEFUL_TESTING, label=None, status=st, recorder=rec,
                                                         elapsed_time=0.0, skip_reason=None, is_final=is_final and k == n - 1))
    got = []
    while not writer.queue.empty():
        got.append(writer.queue.get())
    return len(got) == n and all(isinstance(g, Process) and g.recorder is r for g, r in zip(got, recorders))


def _finished(label: str, status: Status, recorder: ScenarioRecorder):
    return events.ScenarioFinished(id=None, suite_id=None, phase=PhaseName.FUZZING, label=label, status=status, recorder=recorder, elapsed_time=0.1,
                                   skip_reason=None, is_final=False)


def junit_histories(l1: int, l2: int, l3: int, s1: int, s2: int, s3: int, same12: bool, same13: bool, err: bool) -> bool:
    """
    pre: all(0 <= l <= 2 for l in (l1, l2, l3)) and all(0 <= s <= 3 for s in (s1, s2, s3))
    post: _
    """
    # producing the report never crashes, for any sequence of scenarios and repeated failures across phases
    det.reset()
    ctx = ExecutionContext()
    handler = junitxml.JunitXMLHandler(file_handle=None)
    titles = ["t0", "t0" if same12 else "t1", "t0" if same13 else "t2"]
    for k, (l, s) in enumerate(zip([l1, l2, l3][:NJ], [s1, s2, s3][:NJ])):
        # the stateful phase reports all its scenarios under one label while its failures belong to individual operations
        label = pick(["GET /a", "GET /b", "Stateful tests"], l)
        status = pick([Status.SUCCESS, Status.FAILURE, Status.ERROR, Status.SKIP], s)
        recorder = ScenarioRecorder(label=label)
        case = mk_case(OPS[0], "c%d" % k)
        recorder.cases[case.id] = CaseNode(value=case, parent_id=None, transition=None)
        recorder.interactions[case.id] = mk_interaction(Response(status_code=500, headers={}, content=b"", request=None, elapsed=0.1, verify=True), timestamp=0.0)
        if status == Status.FAILURE:
            recorder.record_check_failure(name="c", case_id=case.id, code_sample="curl", failure=Failure(operation="GET /a", title=titles[k], message="m"))
        else:
            recorder.record_check_success(name="c", case_id=case.id)
        event = _finished(label, status, recorder)
        ctx.on_event(event)
        handler.handle_event(ctx, event)
        if err:
            e = events.NonFatalError(error=ValueError("x"), phase=PhaseName.FUZZING, label=label, related_to_operation=True)
            ctx.on_event(e)
            handler.handle_event(ctx, e)
    return set(handler.test_cases) <= {"GET /a", "GET /b", "Stateful tests"}


NJ = tier(2, 3)


# ---------------------------------------------------------------------------------------------------------------
# HAR


class _Har:
    def __init__(self):
        self.entries = []

    def __enter__(self):
        return self

    def __exit__(self, *exc):
        return False

    def add_entry(self, **kwargs):
        self.entries.append(kwargs)


def run_har(recorder, sanitize: bool, preserve_bytes: bool):
    q = queue.Queue()
    for item in (Process(recorder=recorder), Finalize()):
        q.put(item)
    har = _Har()
    saved = cassettes.harfile.open
    cassettes.harfile.open = lambda path: har
    try:
        cassettes.har_writer(None, sanitize, preserve_bytes, q)
    finally:
        cassettes.harfile.open = saved
    return har.entries


HAR_SECRETS = ["QJZ", "s3cr3t/+", "a b"]
HAR_KEYS = [("api_key", True), ("access_token", True), ("page", False)]
HAR_CONTENTS = [b"ok", b"", None, b"caf" + bytes([0xE9]), bytes([0x7B, 0x22, 0xC3]), bytes([0xFF, 0xFE, 0x00])]


def har_entry(secret: int, key: int, content: int, sanitize: bool, preserve_bytes: bool, declared_json: bool, userinfo: bool) -> bool:
    """
    pre: content == param(0) % len(HAR_CONTENTS) and 0 <= secret < len(HAR_SECRETS) and 0 <= key < len(HAR_KEYS) and 0 <= content < len(HAR_CONTENTS)
    post: _
    """
    from urllib.parse import quote

    value = pick(HAR_SECRETS, secret)
    name, sensitive = pick(HAR_KEYS, key)
    uri = "http://" + ("user:PWZ@" if userinfo else "") + "h.io/a?" + name + "=" + quote(value, safe="") + "&lim=1"
    body = pick(HAR_CONTENTS, content)
    resp_headers = {"Content-Type": ["application/json; charset=utf-8" if declared_json else "text/plain"], "Set-Cookie": ["sid=" + quote(value, safe="")]}
    recorder = make_recorder(uri, "GET", {"Authorization": ["Bearer " + value], "X-Plain": ["p"]}, None, 200, "OK", resp_headers, body, 1, 1)
    try:
        entries = run_har(recorder, sanitize, preserve_bytes)
    except Exception:
        return False  # the writer (its own thread in a run) must survive any payload: a crash truncates the file and loses every later exchange
    if len(entries) != 1:
        return False  # each exchange exactly once
    request, response = entries[0]["request"], entries[0]["response"]
    pairs = [(r.name, r.value) for r in request.queryString]
    if sanitize:
        # no output channel of the entry shows the credential: URL, queryString records, request and response headers, cookies
        encoded = quote(value, safe="")
        always = [r.value for r in request.headers if r.name == "Authorization"] + [r.value for r in response.headers if r.name == "Set-Cookie"] + [c.value for c in response.cookies]
        in_query = [request.url] + [v for n, v in pairs if n == name]
        for text in always + (in_query if sensitive else []):
            if value in text or encoded in text:
                return False
        if userinfo and "PWZ" in request.url:
            return False
        if not sensitive and pairs != [(name, value), ("lim", "1")]:
            return False
    elif pairs != [(name, value), ("lim", "1")] or request.url != uri:
        return False
    text = response.content.text
    if preserve_bytes or body is None:
        return True
    return isinstance(text, str)


_V = ["schemathesis.cli.commands.run.handlers.cassettes.vcr_writer", "schemathesis.cli.commands.run.handlers.cassettes.write_double_quoted",
      "schemathesis.core.output.sanitization.sanitize_url", "schemathesis.core.output.sanitization.sanitize_value"]
_VS = ["the writer's queue is pre-filled and its LazyFile is an in-memory buffer (no writer thread)", "PyYAML safe_load is the judge of validity (trusted)"]
OBLIGATIONS = [
    Ob(fn="har_entry", props=["C15", "C16"], clause="HAR: each exchange appears exactly once whatever bytes the response holds (invalid UTF-8 included, the writer never crashes); with sanitization on neither the URL, the queryString records, the headers nor the cookies of the entry show a credential, with it off the query is recorded as sent",
       timeout=400, params=range(6), functions=["schemathesis.cli.commands.run.handlers.cassettes.har_writer", "schemathesis.cli.commands.run.handlers.cassettes._extract_cookies", "schemathesis.core.output.sanitization.sanitize_url",
                                                "schemathesis.core.output.sanitization.sanitize_value"],
       symbolic="which of 3 secret texts travels under which of 3 query keys (2 sensitive) / Authorization / Set-Cookie; which of 6 response payloads (text, empty, none, latin-1 byte, truncated UTF-8 sequence, BOM-like bytes); sanitize and preserve-bytes switches; declared media type; credentials embedded in the URL or not",
       bounds="3 x 3 x 6 x 2 x 2 x 2 concrete shapes", stubs=["harfile.open replaced by a recorder of add_entry() arguments (the JSON text harfile writes is outside)", "clock pinned"]),
    Ob(fn="double_quoted", props=["C16"], clause="bodies and coverage descriptions: the double-quoted scalar written for any text decodes back to exactly that text (lossless for UTF-8 text) and is a valid one-line YAML scalar",
       timeout={"quick": 300, "thorough": 900}, params={"quick": [0, 1, 2, 3], "thorough": range(6)}, param_names=CLASSES,
       functions=["schemathesis.cli.commands.run.handlers.cassettes.write_double_quoted"],
       symbolic="one character of the class (escaped characters are realised when their code is formatted: one path each), which neighbours surround it",
       bounds="text = [neighbour] + 1 character + [neighbour], neighbours from 4 choices (none, quote, backslash, space); classes: printable ASCII, C0/DEL/C1, BMP text, separators/BOM/noncharacters; thorough adds sampled surrogates and astral characters",
       outside=["strings longer than 3 characters", "all surrogates / astral characters (sampled only)"]),
    Ob(fn="double_quoted_none", props=["C16"], clause="absent text is written as null", timeout=60, functions=["schemathesis.cli.commands.run.handlers.cassettes.write_double_quoted"], reach=True,
       symbolic="(none)", bounds="single case"),
    Ob(fn="vcr_uri", props=["C16"], clause="the cassette is valid YAML and carries the URL actually requested, for every character requests leaves unencoded in a URL",
       timeout={"quick": 300, "thorough": 600}, functions=_V, symbolic="one URL character (23 reserved/unreserved punctuation marks + alphanumerics), preserve-bytes",
       bounds="one character inside the path of a fixed URL", stubs=_VS),
    Ob(fn="vcr_header_value", props=["C16"], clause="header values with any latin-1 text survive the cassette", timeout={"quick": 300, "thorough": 600}, params=range(4), functions=_V,
       symbolic="one latin-1 character inside a request or response header value (realised by json.dumps: one path per character), sanitize",
       bounds="all 253 latin-1 characters except NUL/CR/LF, in 4 shards", stubs=_VS),
    Ob(fn="vcr_shapes", props=["C16"], clause="all case metadata shapes (none, fuzzing, coverage), network errors without a response, empty bodies: valid YAML, each exchange exactly once",
       timeout={"quick": 300, "thorough": 600}, functions=_V, symbolic="metadata shape (4), check results (3), response present, bodies present, sanitize, preserve-bytes, 1-2 exchanges", bounds="2^4 x 4 x 3 x 2 shapes", stubs=_VS),
    Ob(fn="cassette_handler", props=["C16"], clause="each exchange delivered to the reporters reaches the cassette exactly once (also the final replay of a failing stateful scenario)",
       timeout=120, functions=["schemathesis.cli.commands.run.handlers.cassettes.CassetteWriter.handle_event"], symbolic="scenario status (5), is_final flag, 1-2 scenarios", bounds="<= 2 scenarios",
       stubs=["CassetteWriter built without starting its writer thread"]),
    Ob(fn="junit_histories", props=["C16"], clause="producing the JUnit report never crashes, for any order of scenarios and repeated failures across phases",
       timeout={"quick": 300, "thorough": 900}, functions=["schemathesis.cli.commands.run.handlers.junitxml.JunitXMLHandler.handle_event", "schemathesis.cli.commands.run.handlers.junitxml.add_failure",
                                                            "schemathesis.cli.commands.run.context.Statistic.on_scenario_finished", "schemathesis.core.failures.format_failures"],
       symbolic="label and status of each scenario, whether its failure equals an earlier one, an error event after each", bounds={"quick": "2 scenarios over 3 labels (two operations and the stateful phase)", "thorough": "3 scenarios"},
       outside=["the XML serialisation itself (junit_xml library, at EngineFinished)"]),
]
