"""C01.b-d - length distribution, OpenAPI->JSON-Schema conversion, per-location filters (CrossHair).

Real code executed symbolically: schemathesis.specs.openapi.patterns._distribute_length_constraints, _build_size, _build_quantifier;
schemathesis.specs.openapi.converter.to_json_schema, rewrite_properties, forbid_properties, is_read_only;
schemathesis.openapi.generation.filters.is_valid_path / is_valid_query / is_valid_header.
"""
from vf.h import *
from vf.util import pick

from schemathesis.openapi.generation import filters
from schemathesis.specs.openapi import converter, patterns
from schemathesis.specs.openapi.patterns import MAXREPEAT

LMAX = tier(3, 5)


def _bound(lo: int, hi: int, unbounded: bool):
    return (lo, MAXREPEAT if unbounded else hi)


def _dist_ok(bounds, min_length, max_length) -> bool:
    result = patterns._distribute_length_constraints(bounds, min_length, max_length)
    lo_sum = sum(lo for lo, _ in bounds)
    feasible = (max_length is None or lo_sum <= max_length) and (
        min_length is None or any(hi == MAXREPEAT for _, hi in bounds) or sum(hi for _, hi in bounds) >= min_length
    )
    if result is None:
        # declining to rewrite is always safe (the caller keeps the original pattern and the length keywords)
        return True
    if len(result) != len(bounds):
        return False
    total_lo = 0
    total_hi = 0
    unbounded = False
    for (lo, hi), (new_lo, new_hi) in zip(bounds, result):
        # each part stays inside its own quantifier
        if new_lo < lo or new_hi > hi or new_lo > new_hi:
            return False
        total_lo += new_lo
        if new_hi == MAXREPEAT:
            unbounded = True
        else:
            total_hi += new_hi
    # every string the new quantifiers admit has a length inside [min_length, max_length] ...
    if min_length is not None and total_lo < min_length:
        return False
    if max_length is not None and (unbounded or total_hi > max_length):
        return False
    # ... and a feasible request was not turned into an empty language
    return feasible


# which of the two parts is unbounded and which length keyword is present: enumerated by the driver (12 shapes)
SHAPES = [(u1, u2, has_min, has_max) for u1 in (False, True) for u2 in (False, True) for has_min in (False, True) for has_max in (False, True) if has_min or has_max]
SHAPE = SHAPES[param(0) % len(SHAPES)]


def distribute_2(lo1: int, hi1: int, lo2: int, hi2: int, min_length: int, max_length: int) -> bool:
    """
    pre: 0 <= lo1 <= hi1 <= LMAX and 0 <= lo2 <= hi2 <= LMAX
    pre: 0 <= min_length <= 2 * LMAX + 1
    pre: 0 <= max_length <= 2 * LMAX + 1
    pre: min_length <= max_length
    post: _
    """
    u1, u2, has_min, has_max = SHAPE
    return _dist_ok([_bound(lo1, hi1, u1), _bound(lo2, hi2, u2)], min_length if has_min else None, max_length if has_max else None)


def distribute_3(lo1: int, hi1: int, u1: bool, lo2: int, hi2: int, u2: bool, lo3: int, hi3: int, u3: bool, min_length: Optional[int], max_length: Optional[int]) -> bool:
    """
    pre: 0 <= lo1 <= hi1 <= 3 and 0 <= lo2 <= hi2 <= 3 and 0 <= lo3 <= hi3 <= 3
    pre: min_length is None or 0 <= min_length <= 10
    pre: max_length is None or 0 <= max_length <= 10
    pre: not (min_length is None and max_length is None)
    pre: min_length is None or max_length is None or min_length <= max_length
    post: _
    """
    return _dist_ok([_bound(lo1, hi1, u1), _bound(lo2, hi2, u2), _bound(lo3, hi3, u3)], min_length, max_length)


def build_size(min_repeat: int, max_repeat: int, unbounded: bool, min_length: Optional[int], max_length: Optional[int]) -> bool:
    """
    pre: 0 <= min_repeat <= max_repeat < MAXREPEAT
    pre: min_length is None or 0 <= min_length < MAXREPEAT
    pre: max_length is None or 0 <= max_length < MAXREPEAT
    post: _
    """
    hi = MAXREPEAT if unbounded else max_repeat
    new_lo, new_hi = patterns._build_size(min_repeat, hi, min_length, max_length)
    # the merged quantifier is the intersection of the pattern's own bounds and the length bounds
    if new_lo < min_repeat or (min_length is not None and new_lo < min_length):
        return False
    if new_hi > hi or (max_length is not None and new_hi > max_length):
        return False
    want_lo = min_repeat if min_length is None else max(min_repeat, min_length)
    want_hi = hi if max_length is None else min(hi, max_length)
    return (new_lo, new_hi) == (want_lo, want_hi)


def build_quantifier(lo: int, hi: int, unbounded: bool) -> bool:
    """
    pre: 0 <= lo <= hi <= 12
    post: _
    """
    text = patterns._build_quantifier(lo, MAXREPEAT if unbounded else hi)
    if unbounded:
        return text == "{%d,}" % lo
    if lo == hi:
        return text == "{%d}" % lo
    return text == "{%d,%d}" % (lo, hi)


def convert(nullable: bool, explicit_false: bool, ro_a: bool, ro_b: bool, req_a: bool, req_b: bool, copy: bool, nullable_name_idx: int) -> bool:
    """
    pre: 0 <= nullable_name_idx <= 1
    post: _
    """
    nullable_name = pick(["nullable", "x-nullable"], nullable_name_idx)
    props = {"a": {"type": "string"}, "b": {"type": "integer"}, "c": {"type": "boolean"}}
    if ro_a:
        props["a"]["readOnly"] = True
    if ro_b:
        props["b"]["readOnly"] = True
    required = ["c"]
    if req_a:
        required.append("a")
    if req_b:
        required.append("b")
    schema = {"type": "object", "properties": props, "required": required}
    if nullable:
        schema[nullable_name] = True
    elif explicit_false:
        schema[nullable_name] = False  # `nullable: false` is the documented default written out: null is NOT allowed
    snapshot = {"type": "object", "properties": {k: dict(v) for k, v in props.items()}, "required": list(required)}
    if nullable_name in schema:
        snapshot[nullable_name] = schema[nullable_name]
    out = converter.to_json_schema(schema, nullable_name=nullable_name, copy=copy)
    if copy and schema != snapshot:
        return False  # the declared schema must not be modified
    if nullable:
        if list(out) != ["anyOf"] or out["anyOf"][1] != {"type": "null"}:
            return False
        inner = out["anyOf"][0]
        if nullable_name in inner:
            return False
    else:
        inner = out
        if "anyOf" in out or out.get("type") != "object":
            return False  # null must not become acceptable
    # NOTE: with `nullable` the object keywords live under anyOf[0]; readOnly handling there is done when that subschema
    # is visited by the recursive transform - this harness checks the non-nullable case for it.
    if not nullable:
        for name, ro, req in (("a", ro_a, req_a), ("b", ro_b, req_b)):
            present = name in inner.get("properties", {})
            required_now = name in inner.get("required", [])
            forbidden = name in inner.get("not", {}).get("required", [])
            if ro and (present or required_now or not forbidden):
                return False  # readOnly properties are never sent
            if not ro and (not present or required_now != req or forbidden):
                return False
        if "c" not in inner.get("properties", {}) or "c" not in inner.get("required", []):
            return False
    return True


def convert_recursive(ro_inner: bool, req_inner: bool, nullable_inner: bool) -> bool:
    """
    post: _
    """
    inner = {"type": "object", "properties": {"x": {"type": "string"}, "y": {"type": "integer"}}, "required": ["y"]}
    if ro_inner:
        inner["properties"]["x"]["readOnly"] = True
    if req_inner:
        inner["required"].append("x")
    if nullable_inner:
        inner["nullable"] = True
    schema = {"type": "object", "properties": {"o": inner}, "required": ["o"]}
    out = converter.to_json_schema_recursive(schema, "nullable")
    sub = out["properties"]["o"]
    if nullable_inner:
        if sub.get("anyOf", [None, None])[1] != {"type": "null"}:
            return False
        sub = sub["anyOf"][0]
    present = "x" in sub.get("properties", {})
    if ro_inner:
        return not present and "x" not in sub.get("required", []) and "x" in sub.get("not", {}).get("required", [])
    return present and ("x" in sub.get("required", [])) == req_inner


def path_filter(value: str, other: int) -> bool:
    """
    pre: len(value) <= FL
    post: _
    """
    params = {"id": value, "n": other}
    snapshot = dict(params)
    verdict = filters.is_valid_path(params)
    if params != snapshot or not isinstance(verdict, bool):
        return False
    # reference reading of the docstring: empty values, '/', and values containing / { } are rejected; nothing else is (for BMP text)
    bad = value == "" or "/" in value or "{" in value or "}" in value or any(0xD800 <= ord(c) <= 0xDFFF for c in value)
    return verdict == (not bad)


def query_filter(value: str) -> bool:
    """
    pre: len(value) <= FL
    post: _
    """
    q = {"q": value}
    verdict = filters.is_valid_query(q)
    bad = any(0xD800 <= ord(c) <= 0xDFFF for c in value)
    return q == {"q": value} and verdict == (not bad)


FL = tier(2, 3)

OBLIGATIONS = [
    Ob(fn="distribute_2", clause="pattern x length: the quantifier bounds chosen for each part keep every string inside [minLength, maxLength] and inside the original quantifiers; feasible requests are not emptied",
       timeout={"quick": 120, "thorough": 900}, path_timeout=30, params=range(12),
       param_names=["part1 unbounded=%s part2 unbounded=%s minLength given=%s maxLength given=%s" % sh for sh in SHAPES],
       functions=["schemathesis.specs.openapi.patterns._distribute_length_constraints"],
       symbolic="two quantifier bounds lo/hi, minLength, maxLength (which parts are unbounded / which keyword is present: 12 shapes enumerated)",
       bounds={"quick": "2 parts, 0 <= lo <= hi <= 3 or hi unbounded; lengths 0..7", "thorough": "0 <= lo <= hi <= 5; lengths 0..11"}),
    Ob(fn="distribute_3", clause="same, three quantified parts", tiers=("thorough",), timeout=1500, path_timeout=30,
       functions=["schemathesis.specs.openapi.patterns._distribute_length_constraints"],
       symbolic="three quantifier bounds, minLength, maxLength", bounds="3 parts, 0 <= lo <= hi <= 3 or unbounded; lengths None or 0..10"),
    Ob(fn="build_size", clause="a single quantifier merged with length bounds is their intersection",
       timeout={"quick": 120, "thorough": 300}, functions=["schemathesis.specs.openapi.patterns._build_size"],
       symbolic="min_repeat, max_repeat (or unbounded), minLength, maxLength: unbounded ints >= 0", bounds="all non-negative ints below MAXREPEAT (2**32-1)"),
    Ob(fn="build_quantifier", clause="the quantifier text denotes the computed bounds", timeout={"quick": 120, "thorough": 300},
       functions=["schemathesis.specs.openapi.patterns._build_quantifier"], symbolic="lo, hi, unbounded flag", bounds="0 <= lo <= hi <= 12"),
    Ob(fn="convert", clause="readOnly properties are never sent (removed from properties/required, forbidden via not.required); nullable: true becomes anyOf[..., null] while an absent or explicit `nullable: false` never admits null; the declared schema is not modified",
       timeout={"quick": 120, "thorough": 300}, functions=["schemathesis.specs.openapi.converter.to_json_schema", "schemathesis.specs.openapi.converter.rewrite_properties",
                                                             "schemathesis.specs.openapi.converter.forbid_properties", "schemathesis.specs.openapi.converter.is_read_only"],
       symbolic="nullable flag, readOnly flag and required-membership of two properties, copy flag, nullable keyword spelling", bounds="one object schema with 3 properties"),
    Ob(fn="convert_recursive", clause="same for a nested object reached through the recursive transform",
       timeout={"quick": 120, "thorough": 300}, functions=["schemathesis.specs.openapi.converter.to_json_schema_recursive", "schemathesis.core.transforms.transform"],
       symbolic="readOnly / required / nullable flags of the nested object", bounds="one nested object"),
    Ob(fn="path_filter", clause="per-location filters only narrow: they return a verdict, never alter the value, and reject exactly the documented unusable values",
       timeout={"quick": 120, "thorough": 400}, functions=["schemathesis.openapi.generation.filters.is_valid_path", "schemathesis.core.validation.contains_unicode_surrogate_pair"],
       symbolic="a path parameter value (any Unicode)", bounds={"quick": "len(value) <= 2", "thorough": "len(value) <= 3"}),
    Ob(fn="query_filter", clause="same for query parameters", timeout={"quick": 120, "thorough": 400},
       functions=["schemathesis.openapi.generation.filters.is_valid_query"], symbolic="query value (name concrete)",
       bounds={"quick": "len(value) <= 2", "thorough": "len(value) <= 3"}),
]
