"""C18 - use_after_free / ensure_resource_availability follow from the recorded history.

Real code (executed symbolically): schemathesis.specs.openapi.checks.use_after_free, ensure_resource_availability,
_is_prefix_operation, ResourcePath; schemathesis.engine.recorder.ScenarioRecorder.find_parent/find_related/find_response;
schemathesis.checks.CheckContext; Case._override / Override.from_components / get_component_diff.
Symbolic: the whole history - operation of every recorded case, identifiers, parent pointers, response statuses.
Oracle: the property text as a predicate over the history.
"""
from vf.h import *
from vf.util import IntBox, mk_case, mk_interaction

import http.client

import schemathesis
from schemathesis.checks import CheckContext
from schemathesis.core.failures import Failure
from schemathesis.core.transport import Response
from schemathesis.engine.recorder import CaseNode, Interaction, ScenarioRecorder
from schemathesis.generation import GenerationMode
from schemathesis.generation.meta import CaseMetadata, ComponentInfo, ComponentKind, GenerationInfo, PhaseInfo
from schemathesis.specs.openapi import checks as oc


def _param(name):
    return {"name": name, "in": "path", "required": True, "schema": {"type": "integer"}}


_OK = {"responses": {"200": {"description": "OK"}}}
RAW = {
    "openapi": "3.0.2",
    "info": {"title": "t", "version": "1"},
    "paths": {
        "/users": {"post": dict(_OK)},
        "/users/{id}": {"parameters": [_param("id")], "get": dict(_OK), "delete": dict(_OK)},
        "/orders/{id}": {"parameters": [_param("id")], "get": dict(_OK), "delete": dict(_OK)},
        "/user/{id}": {"parameters": [_param("id")], "patch": dict(_OK)},
        "/users/{id}/posts/{pid}": {"parameters": [_param("id"), _param("pid")], "get": dict(_OK), "delete": dict(_OK)},
    },
}
SCHEMA = schemathesis.openapi.from_dict(RAW)

# (path, method, collection, depth) - collection/depth are the oracle's reading of "same resource"
OPS = [
    ("/users", "post", "users", 0),
    ("/users/{id}", "get", "users", 1),
    ("/users/{id}", "delete", "users", 1),
    ("/orders/{id}", "delete", "orders", 1),
    ("/user/{id}", "patch", "users", 1),  # trailing-'s' normalisation documented in the code: same collection
    ("/users/{id}/posts/{pid}", "get", "users", 2),
    ("/users/{id}/posts/{pid}", "delete", "users", 2),
    ("/orders/{id}", "get", "orders", 1),
]
OPERATIONS = [SCHEMA[p][m.upper()] for p, m, _, _ in OPS]
NOPS = tier(7, 8)


class _Reasons(dict):
    """http.client.responses without hashing the (symbolic) status: only used to format the failure message."""

    def get(self, key, default=None):
        return default


http.client.responses = _Reasons(http.client.responses)


def make_case(k: int, op: int, ident: int, pid: int, generated: bool = False, from_link: bool = True):
    path, method, _, depth = OPS[op]
    operation = OPERATIONS[op]
    params = None
    if depth >= 1:
        params = {"id": ident}
    if depth == 2:
        params["pid"] = pid
    meta = None
    if generated:
        meta = CaseMetadata(
            generation=GenerationInfo(time=0.0, mode=GenerationMode.POSITIVE),
            components={ComponentKind.PATH_PARAMETERS: ComponentInfo(mode=GenerationMode.POSITIVE)},
            phase=PhaseInfo.generate(),
        )
        stored = None if params is None else {key: -7 for key in params}  # what the generator produced
        case = mk_case(operation, "c%d" % k, path_parameters=stored, meta=meta)
        if from_link and params is not None:
            case.path_parameters = dict(params)  # the link replaced the generated values
        elif params is not None:
            case.path_parameters = dict(stored)
        return case
    return mk_case(operation, "c%d" % k, path_parameters=params)


def response(status: int) -> Response:
    return Response(status_code=IntBox(status), headers={}, content=b"", request=None, elapsed=0.0, verify=False)


def pick(seq, i: int):
    for k in range(len(seq)):
        if i == k:
            return seq[k]
    return seq[0]


def build(ops, ids, parents, statuses, generated_last=False, from_link=True):
    recorder = ScenarioRecorder(label="t")
    root = make_case(0, 0, 0, 0)
    recorder.cases["c0"] = CaseNode(value=root, parent_id=None, transition=None)
    recorder.interactions["c0"] = mk_interaction(response(statuses[0]))
    cases = [root]
    for j in range(1, len(ops) + 1):
        op = pick(list(range(NOPS)), ops[j - 1])
        last = j == len(ops)
        case = make_case(j, op, pick([0, 1, 2], ids[j - 1]), 0, generated=generated_last and last, from_link=from_link)
        parent_idx = pick([-1] + list(range(j)), parents[j - 1] + 1)  # -1: no parent, i.e. the root of another tree of the same scenario
        recorder.cases["c%d" % j] = CaseNode(value=case, parent_id=None if parent_idx < 0 else "c%d" % parent_idx, transition=None)
        recorder.interactions["c%d" % j] = mk_interaction(response(statuses[j]))
        cases.append((case, op, parent_idx))
    ctx = CheckContext(override=None, auth=None, headers=None, config={}, transport_kwargs=None, recorder=recorder)
    return ctx, cases


def same_resource_prefix(op_a: int, id_a: int, op_b: int, id_b: int) -> bool:
    """Oracle: A's path is a prefix of B's path with equal identifier values (pid fixed to 0 in every case)."""
    _, _, coll_a, depth_a = OPS[op_a]
    _, _, coll_b, depth_b = OPS[op_b]
    if coll_a != coll_b or depth_a > depth_b:
        return False
    if depth_a >= 1 and id_a != id_b:
        return False
    return True



# ---------------------------------------------------------------------------------------------------------------
# "same resource": the path of the earlier request is a prefix of the later one with equal identifiers - equal as they travel on the wire
# (an id extracted from a JSON body as 7 and one cut out of a Location header as "7" name the same resource)

TEMPLATES = [("/users", []), ("/users/{id}", ["id"]), ("/users/{userId}", ["userId"]), ("/orders/{id}", ["id"]), ("/users/{id}/posts/{pid}", ["id", "pid"]), ("/user/{id}", ["id"])]
ID_FORMS = [7, "7", 8, "0"]


def prefix_identity(t1: int, t2: int, a1: int, a2: int, b1: int, b2: int) -> bool:
    """
    pre: t1 == param(0) % len(TEMPLATES) and 0 <= t2 < len(TEMPLATES) and all(0 <= v < len(ID_FORMS) for v in (a1, b1)) and all(0 <= v <= 1 for v in (a2, b2))
    post: _
    """
    (lv, lnames), (rv, rnames) = pick(TEMPLATES, t1), pick(TEMPLATES, t2)
    lvals = [pick(ID_FORMS, a1), pick(ID_FORMS, a2)]
    rvals = [pick(ID_FORMS, b1), pick(ID_FORMS, b2)]
    lhs = oc.ResourcePath(lv, {n: v for n, v in zip(lnames, lvals)})
    rhs = oc.ResourcePath(rv, {n: v for n, v in zip(rnames, rvals)})
    lparts, rparts = lv.split("/"), rv.split("/")
    want = len(lparts) <= len(rparts)
    if want:
        li = ri = 0
        for left, right in zip(lparts, rparts):
            lvar, rvar = left.startswith("{"), right.startswith("{")
            if lvar and rvar:
                if str(lvals[li]) != str(rvals[ri]):
                    want = False
            elif lvar != rvar or left.rstrip("s") != right.rstrip("s"):
                want = False
            li += lvar
            ri += rvar
    return oc._is_prefix_operation(lhs, rhs) == want



# ---------------------------------------------------------------------------------------------------------------
# "not available after creation" is claimed only for a request whose parameters ALL came from a link (optional ones included)

RAW_OPT = {"openapi": "3.0.2", "info": {"title": "t", "version": "1"}, "paths": {
    "/items": {"post": dict(_OK)},
    "/items/{id}": {"get": dict(_OK, parameters=[_param("id"), {"name": "expand", "in": "query", "schema": {"type": "string"}},
                                                 {"name": "X-Mode", "in": "header", "schema": {"type": "string"}}])}}}
SCHEMA_OPT = schemathesis.openapi.from_dict(RAW_OPT)
OPT_POST, OPT_GET = SCHEMA_OPT["/items"]["POST"], SCHEMA_OPT["/items/{id}"]["GET"]
list(OPT_GET.iter_parameters())


def availability_optional(id_linked: bool, expand_linked: bool, mode_linked: bool, status: int, created: int) -> bool:
    """
    pre: 400 <= status <= 499 and created in (200, 201, 302, 404, 500)
    post: _
    """
    recorder = ScenarioRecorder(label="t")
    root = mk_case(OPT_POST, "c0")
    recorder.cases["c0"] = CaseNode(value=root, parent_id=None, transition=None)
    recorder.interactions["c0"] = mk_interaction(response(created))
    meta = CaseMetadata(generation=GenerationInfo(time=0.0, mode=GenerationMode.POSITIVE), phase=PhaseInfo.generate(),
                        components={ComponentKind.PATH_PARAMETERS: ComponentInfo(mode=GenerationMode.POSITIVE), ComponentKind.QUERY: ComponentInfo(mode=GenerationMode.POSITIVE),
                                    ComponentKind.HEADERS: ComponentInfo(mode=GenerationMode.POSITIVE)})
    case = mk_case(OPT_GET, "c1", path_parameters={"id": -7}, query={"expand": "generated"}, headers={"X-Mode": "generated"}, meta=meta)
    if id_linked:
        case.path_parameters = {"id": 5}
    if expand_linked:
        case.query = {"expand": "linked"}
    if mode_linked:
        case.headers = {"X-Mode": "linked"}
    recorder.cases["c1"] = CaseNode(value=case, parent_id="c0", transition=None)
    recorder.interactions["c1"] = mk_interaction(response(status))
    ctx = CheckContext(override=None, auth=None, headers=None, config={}, transport_kwargs=None, recorder=recorder)
    try:
        oc.ensure_resource_availability(ctx, response(status), case)
        reported = False
    except Failure:
        reported = True
    # a generated (not link-supplied) value anywhere in the request may itself explain the 4xx: nothing is claimed then
    expected = 200 <= created < 400 and id_linked and expand_linked and mode_linked
    return reported == expected


def _valid(ops, ids, parents, statuses) -> bool:
    return (
        all(0 <= o < NOPS for o in ops)
        and all(0 <= i < len(ids) for i in ids)  # equality pattern of k identifiers needs k values
        and all(-1 <= parents[j] <= j for j in range(len(parents)))
        and all(100 <= s <= 599 for s in statuses)
    )


def _root(parents, j: int) -> int:
    """Root of the tree case j belongs to (case 0 is a root; parents[j-1] is the parent of case j, -1 = none)."""
    for _ in range(len(parents) + 1):
        if j == 0 or parents[j - 1] < 0:
            return j
        j = parents[j - 1]
    return j


def _uaf(ops, ids, parents, statuses) -> bool:
    n = len(ops)
    ctx, cases = build(ops, ids, parents, statuses)
    cur, cur_op, _ = cases[-1]
    cur_status = statuses[-1]
    deleted = False
    for j in range(1, n):  # every earlier non-root case
        case_j, op_j, _ = cases[j]
        if (
            _root(parents, j) == _root(parents, n)
            and OPS[op_j][1] == "delete"
            and 200 <= statuses[j] < 300
            and same_resource_prefix(op_j, ids[j - 1], cur_op, ids[n - 1])
        ):
            deleted = True
    expected = deleted and cur_status != 404 and cur_status < 500
    try:
        oc.use_after_free(ctx, response(cur_status), cur)
        reported = False
    except Failure:
        reported = True
    return reported == expected


def _availability(ops, ids, parents, statuses, from_link) -> bool:
    n = len(ops)
    ctx, cases = build(ops, ids, parents, statuses, generated_last=True, from_link=from_link)
    cur, cur_op, cur_parent = cases[-1]
    cur_status = statuses[-1]
    if cur_parent < 0:
        created = False
    else:
        if cur_parent == 0:
            parent_op, parent_id = 0, 0
        else:
            parent_op, parent_id = cases[cur_parent][1], ids[cur_parent - 1]
        created = (
            OPS[parent_op][1] == "post" and 200 <= statuses[cur_parent] < 400 and same_resource_prefix(parent_op, parent_id, cur_op, ids[n - 1])
        )
    deleted = False
    for j in range(1, n):
        case_j, op_j, _ = cases[j]
        if (
            _root(parents, j) == _root(parents, n)
            and OPS[op_j][1] == "delete"
            and 200 <= statuses[j] < 300
            and same_resource_prefix(op_j, ids[j - 1], cur_op, ids[n - 1])
        ):
            deleted = True
    has_params = OPS[cur_op][3] >= 1
    all_from_link = from_link or not has_params
    expected = 400 <= cur_status < 500 and created and all_from_link and not deleted
    try:
        oc.ensure_resource_availability(ctx, response(cur_status), cur)
        reported = False
    except Failure:
        reported = True
    return reported == expected


# The operation of the case under check is fixed per process (VF_PARAM); everything else is symbolic.
LAST_OP = param(1) % 8
FIRST_OP = param(1) // 8  # operation of the first recorded case: also enumerated, to spread the paths over processes


def use_after_free_2(id1: int, par1: int, s0: int, s1: int, id2: int, par2: int, s2: int) -> bool:
    """
    pre: _valid([FIRST_OP, LAST_OP], [id1, id2], [par1, par2], [s0, s1, s2])
    post: _
    """
    return _uaf([FIRST_OP, LAST_OP], [id1, id2], [par1, par2], [s0, s1, s2])


def use_after_free_3(id1: int, par1: int, s0: int, s1: int, op2: int, id2: int, par2: int, s2: int, id3: int, par3: int, s3: int) -> bool:
    """
    pre: _valid([FIRST_OP, op2, LAST_OP], [id1, id2, id3], [par1, par2, par3], [s0, s1, s2, s3])
    post: _
    """
    return _uaf([FIRST_OP, op2, LAST_OP], [id1, id2, id3], [par1, par2, par3], [s0, s1, s2, s3])


def resource_availability_2(id1: int, par1: int, s0: int, s1: int, id2: int, par2: int, s2: int, from_link: bool) -> bool:
    """
    pre: _valid([FIRST_OP, LAST_OP], [id1, id2], [par1, par2], [s0, s1, s2])
    post: _
    """
    return _availability([FIRST_OP, LAST_OP], [id1, id2], [par1, par2], [s0, s1, s2], from_link)


def resource_availability_3(id1: int, par1: int, s0: int, s1: int, op2: int, id2: int, par2: int, s2: int, id3: int, par3: int, s3: int, from_link: bool) -> bool:
    """
    pre: _valid([FIRST_OP, op2, LAST_OP], [id1, id2, id3], [par1, par2, par3], [s0, s1, s2, s3])
    post: _
    """
    return _availability([FIRST_OP, op2, LAST_OP], [id1, id2, id3], [par1, par2, par3], [s0, s1, s2, s3], from_link)


_FUNCS = [
    "schemathesis.specs.openapi.checks.use_after_free", "schemathesis.specs.openapi.checks.ensure_resource_availability",
    "schemathesis.specs.openapi.checks._is_prefix_operation", "schemathesis.specs.openapi.checks.ResourcePath",
    "schemathesis.engine.recorder.ScenarioRecorder.find_parent", "schemathesis.engine.recorder.ScenarioRecorder.find_related",
    "schemathesis.engine.recorder.ScenarioRecorder.find_response", "schemathesis.checks.CheckContext",
    "schemathesis.generation.overrides.Override.from_components", "schemathesis.generation.overrides.get_component_diff",
    "schemathesis.transport.prepare.prepare_path",
]
_BOUNDS = {
    "quick": "root POST /users + 2 recorded cases, each attached to an earlier case or starting another tree (the last is the one under check); 7 operations over 2 collections incl. nested /users/{id}/posts/{pid}; ids 0..(cases-1); every status 100..599; any parent pointers",
    "thorough": "root + 3 recorded cases; 8 operations incl. nested /users/{id}/posts/{pid}; ids 0..(cases-1); statuses 100..599",
}
_N1 = ["%s %s" % (m.upper(), p) for p, m, _, _ in OPS]
_NAMES = ["first=%s / checked=%s" % (_N1[k // 8], _N1[k % 8]) for k in range(64)]
_PQ = [a * 8 + b for a in range(7) for b in range(7)]
_PT = [a * 8 + b for a in range(8) for b in range(8)]
_UAF = "'use after free' is reported iff an earlier DELETE of the same resource (same prefix, same ids) itself succeeded and the response is neither 404 nor 5xx"
_AVL = "'resource not available' is reported iff 4xx, parent is a successful POST on a prefix, all parameters came from the link, and no successful DELETE of it"
_SYM = "operation index, id, parent pointer of every case; every response status (the operation of the checked case is enumerated by the driver)"
_ST = ["http.client.responses.get returns its default (message formatting only)", "Response.status_code is an int-like box: comparisons/arithmetic act on the symbolic int, text formatting is stubbed", "cases and responses built directly, no transport"]
_OUT = ["histories longer than the bound", "cases derived inside checks", "string identifiers that are prefixes of each other"]
OBLIGATIONS = [
    Ob(fn="availability_optional", clause="'not available after creation' is reported only for a request whose parameters all came from a link: a generated value in an optional query or header parameter suppresses the claim just like one in a required parameter",
       timeout=300, functions=["schemathesis.specs.openapi.checks.ensure_resource_availability", "schemathesis.generation.overrides.Override.from_components", "schemathesis.generation.overrides.get_component_diff"],
       symbolic="for the path id, an optional query and an optional header parameter: generated or link-supplied; the 4xx status; the status of the creating POST (5 values)", bounds="2^3 origins x 100 statuses x 5"),
    Ob(fn="prefix_identity", clause="two requests address the same resource when the earlier path is a prefix of the later one with identifiers equal as sent on the wire (7 and '7' are the same id), whether or not the templates are spelled identically",
       timeout=300, params=range(6), functions=["schemathesis.specs.openapi.checks._is_prefix_operation", "schemathesis.specs.openapi.checks.ResourcePath.get"],
       symbolic="two path templates out of 6 (same / different variable names, nested, singular spelling, other collection) and first identifier of each side out of 4 forms (7, '7', 8, '0'), second out of 2",
       bounds="6 x 6 templates x 4 x 4 x 2 x 2 identifier forms"),
    Ob(fn="use_after_free_2", clause=_UAF, timeout={"quick": 90, "thorough": 150}, params={"quick": _PQ, "thorough": _PT}, param_names=_NAMES,
       functions=_FUNCS, symbolic=_SYM, bounds=_BOUNDS["quick"], stubs=_ST, outside=_OUT),
    Ob(fn="resource_availability_2", clause=_AVL, timeout={"quick": 90, "thorough": 150}, params={"quick": _PQ, "thorough": _PT},
       param_names=_NAMES, functions=_FUNCS, symbolic=_SYM + "; whether the link overrode the path parameters", bounds=_BOUNDS["quick"], stubs=_ST, outside=_OUT),
    Ob(fn="use_after_free_3", clause=_UAF, tiers=("thorough",), timeout=240, params=_PT, param_names=_NAMES,
       functions=_FUNCS, symbolic=_SYM, bounds=_BOUNDS["thorough"], stubs=_ST, outside=_OUT),
    Ob(fn="resource_availability_3", clause=_AVL, tiers=("thorough",), timeout=240, params=_PT, param_names=_NAMES,
       functions=_FUNCS, symbolic=_SYM + "; whether the link overrode the path parameters", bounds=_BOUNDS["thorough"], stubs=_ST, outside=_OUT),
]
