"""C03.e - coverage-phase cases: the case-level label agrees with the labels of its parts and with its description.

Real code executed symbolically: schemathesis.generation.hypothesis.builder._iter_coverage_cases, Template.* (add_parameter, set_body,
with_body, with_parameter, with_container, unmodified, _serialize), _stringify_value; schemathesis.generation.coverage.cover_schema_iter
and everything below it for integer / string-length schemas.
Symbolic: the integer bounds of a query parameter and of a JSON body, the generation-mode subset, the set of "unexpected methods".
Stub: Hypothesis draws (coverage.cached_draw) return fixed placeholder values.
"""
from vf.h import *
from vf import det
from vf.util import mk_case, pick

import schemathesis
from schemathesis.core import NOT_SET
from schemathesis.generation import GenerationMode, coverage
from schemathesis.generation.hypothesis import builder
from schemathesis.generation.meta import ComponentKind

_OK = {"responses": {"200": {"description": "OK"}}}
RAW = {"openapi": "3.0.2", "info": {"title": "t", "version": "1"}, "paths": {
    "/q": {"get": dict(_OK, parameters=[{"name": "q", "in": "query", "required": True, "schema": {"type": "integer", "minimum": 1, "maximum": 5}},
                                        {"name": "h", "in": "header", "schema": {"type": "string", "minLength": 1, "maxLength": 3}}]),
           "post": dict(_OK)},
    "/b": {"post": dict(_OK, requestBody={"required": True, "content": {"application/json": {"schema": {"type": "integer", "minimum": 1, "maximum": 5}},
                                                                         "text/plain": {"schema": {"type": "string", "enum": ["x", "y"]}}}}),
           "get": dict(_OK), "delete": dict(_OK)},
}}
SCHEMA = schemathesis.openapi.from_dict(RAW)
OP_Q = SCHEMA["/q"]["GET"]
OP_B = SCHEMA["/b"]["POST"]
for _op in (OP_Q, OP_B):
    list(_op.iter_parameters())
    list(_op.body)


def _draw(strategy):
    return "drawn"


coverage.cached_draw = _draw
builder.perf_counter = det.fake_time.perf_counter


def _make_case(*, operation, **kwargs):
    method = kwargs.pop("method", None)
    kwargs = {k: v for k, v in kwargs.items() if k != "path"}
    case = mk_case(operation, "case", **kwargs)
    if method:
        case.method = method
    return case


SCHEMA.make_case = _make_case
MODES = [[GenerationMode.POSITIVE], [GenerationMode.NEGATIVE], [GenerationMode.POSITIVE, GenerationMode.NEGATIVE]]
METHOD_SETS = [None, {"put"}, {"get", "post"}, {"post", "put", "patch"}, {"get", "delete", "trace"}]


def _label_ok(case, documented) -> bool:
    meta = case.meta
    d = meta.phase.data.description
    part_negative = any(info.mode == GenerationMode.NEGATIVE for info in meta.components.values())
    structural = d.startswith("Missing ") or d.startswith("Duplicate ") or d.startswith("Unspecified HTTP method")
    # the case as a whole is negative exactly when a part is invalid, a required parameter was removed, a parameter duplicated,
    # or an undocumented method is used
    if meta.generation.mode.is_negative != (part_negative or structural):
        return False
    if d.startswith("Unspecified HTTP method"):
        method = d.split(": ")[1].lower()
        if method in documented or case.method.lower() != method:
            return False  # a documented method is not "unspecified"
    return True


def _with_bounds(schema, lo, hi):
    saved = dict(schema)
    schema["minimum"], schema["maximum"] = lo, hi
    return saved


BOUNDS = [(1, 5), (0, 0), (0, 3), (-2, 0), (5, 5), (-1, 1), (2, 3)]


def query_cases(b: int, modes: int, methods: int) -> bool:
    """
    pre: 0 <= b < len(BOUNDS) and 0 <= modes <= 2 and 0 <= methods < len(METHOD_SETS)
    post: _
    """
    lo, hi = pick(BOUNDS, b)
    q = [p for p in OP_Q.query][0].definition["schema"]
    saved = _with_bounds(q, lo, hi)
    try:
        cases = list(builder._iter_coverage_cases(OP_Q, pick(MODES, modes), pick(METHOD_SETS, methods)))
    finally:
        q.clear()
        q.update(saved)
    want_modes = pick(MODES, modes)
    for case in cases:
        if not _label_ok(case, {"get", "post"}):
            return False
        if case.meta.generation.mode not in want_modes:
            return False  # only the requested modes are produced
        info = case.meta.components.get(ComponentKind.QUERY)
        value = (case.query or {}).get("q")
        # the query part's label matches its content when the value is a boundary number of `q`
        if info is not None and isinstance(value, str) and value.lstrip("-").isdigit() and case.meta.phase.data.parameter == "q":
            if (lo <= int(value) <= hi) != (info.mode == GenerationMode.POSITIVE):
                return False
    return bool(cases) or modes == 1


def body_cases(b: int, modes: int, methods: int) -> bool:
    """
    pre: 0 <= b < len(BOUNDS) and 0 <= modes <= 2 and 0 <= methods < len(METHOD_SETS)
    post: _
    """
    lo, hi = pick(BOUNDS, b)
    body = [b for b in OP_B.body if b.media_type == "application/json"][0].definition["schema"]
    saved = _with_bounds(body, lo, hi)
    try:
        cases = list(builder._iter_coverage_cases(OP_B, pick(MODES, modes), pick(METHOD_SETS, methods)))
    finally:
        body.clear()
        body.update(saved)
    for case in cases:
        if not _label_ok(case, {"get", "post", "delete"}):
            return False
        info = case.meta.components.get(ComponentKind.BODY)
        if case.media_type == "application/json" and isinstance(case.body, int) and not isinstance(case.body, bool) and info is not None:
            # every body value, not only the first one, carries its own label
            if (lo <= case.body <= hi) != (info.mode == GenerationMode.POSITIVE):
                return False
            if case.meta.phase.data.parameter_location == "body" and case.meta.generation.mode != info.mode:
                return False
    return True



# ---------------------------------------------------------------------------------------------------------------
# the template the cases are built from: a container is labelled negative exactly when it holds an invalid value

from schemathesis.generation.coverage import NegativeValue, PositiveValue

TLOCS = ["query", "header", "cookie", "path"]
TKINDS = {"query": ComponentKind.QUERY, "header": ComponentKind.HEADERS, "cookie": ComponentKind.COOKIES, "path": ComponentKind.PATH_PARAMETERS}


def template_components(n: int, neg1: bool, neg2: bool, neg3: bool, loc1: int, loc2: int, loc3: int, body: int) -> bool:
    """
    pre: n == param(0) % 4 and all(0 <= l <= 3 for l in (loc1, loc2, loc3)) and 0 <= body <= 2
    post: _
    """
    template = builder.Template({})
    added = [(pick(TLOCS, l), neg) for l, neg in ((loc1, neg1), (loc2, neg2), (loc3, neg3))][:n]
    for k, (loc, negative) in enumerate(added):
        value = NegativeValue(0, description="Value smaller than minimum", location="/minimum") if negative else PositiveValue(5, description="Minimum value")
        template.add_parameter(loc, "p%d" % k, value)
    if body:
        template.set_body(NegativeValue("x", description="Incorrect type", location="") if body == 2 else PositiveValue(1, description="Minimum value"), "application/json")
    data = template.unmodified()
    for loc, kind in TKINDS.items():
        modes = [negative for l, negative in added if l == loc]
        if not modes:
            if kind in data.components:
                return False
            continue
        # whatever the order of declaration: one invalid value makes the container invalid
        if kind not in data.components or (data.components[kind].mode == GenerationMode.NEGATIVE) != any(modes):
            return False
    if body:
        return data.components[ComponentKind.BODY].mode == (GenerationMode.NEGATIVE if body == 2 else GenerationMode.POSITIVE)
    return ComponentKind.BODY not in data.components


RAW2 = {"openapi": "3.0.2", "info": {"title": "t", "version": "1"}, "paths": {
    "/typed": {"get": dict(_OK, parameters=[{"name": "limit", "in": "query", "required": True, "schema": {"type": "integer", "minimum": 1, "maximum": 9}},
                                            {"name": "cursor", "in": "query", "required": True, "schema": {"type": "integer", "minimum": 5}}])},
    # `cursor` declares bounds but no type: the boundary generator has no valid value for it, its first value is "smaller than minimum"
    "/untyped": {"get": dict(_OK, parameters=[{"name": "limit", "in": "query", "required": True, "schema": {"type": "integer", "minimum": 1, "maximum": 9}},
                                              {"name": "cursor", "in": "query", "required": True, "schema": {"minimum": 5}}])},
}}
SCHEMA2 = schemathesis.openapi.from_dict(RAW2)
SCHEMA2.make_case = _make_case
OPS2 = [SCHEMA2["/typed"]["GET"], SCHEMA2["/untyped"]["GET"]]
for _op in OPS2:
    list(_op.iter_parameters())


def sibling_parameter_cases(untyped: int, modes: int) -> bool:
    """
    pre: 0 <= untyped <= 1 and 0 <= modes <= 2
    post: _
    """
    cases = list(builder._iter_coverage_cases(pick(OPS2, untyped), pick(MODES, modes), None))
    for case in cases:
        if not _label_ok(case, {"get"}):
            return False
        query = case.query or {}
        for name, lo, hi in (("limit", 1, 9), ("cursor", 5, None)):
            value = query.get(name)
            if isinstance(value, str) and value.lstrip("-").isdigit():
                conforms = lo <= int(value) and (hi is None or int(value) <= hi)
                # a case presented as valid holds no out-of-range number, also in the parameters it does not vary
                if not conforms and case.meta.generation.mode == GenerationMode.POSITIVE:
                    return False
                info = case.meta.components.get(ComponentKind.QUERY)
                if not conforms and info is not None and info.mode == GenerationMode.POSITIVE:
                    return False
    return True


# warm lazily filled caches (operation maps, serializers) outside tracing: CrossHair needs identical re-executions
query_cases(0, 2, 0)
body_cases(0, 2, 0)
sibling_parameter_cases(0, 2)

_F = ["schemathesis.generation.hypothesis.builder._iter_coverage_cases", "schemathesis.generation.hypothesis.builder.Template", "schemathesis.generation.hypothesis.builder._stringify_value",
      "schemathesis.generation.coverage.cover_schema_iter", "schemathesis.generation.coverage._positive_number", "schemathesis.generation.coverage._positive_string"]
_ST = ["Hypothesis draws (coverage.cached_draw) return a placeholder", "clock and case id pinned"]
OBLIGATIONS = [
    Ob(fn="template_components", clause="the template all coverage cases are built from labels a container (query / headers / cookies / path / body) negative exactly when it holds an invalid value, whatever the order in which the parameters are declared",
       timeout=300, params=range(4), functions=["schemathesis.generation.hypothesis.builder.Template.add_parameter", "schemathesis.generation.hypothesis.builder.Template.set_body", "schemathesis.generation.hypothesis.builder.Template.unmodified"],
       symbolic="0-3 parameters: location (4) and validity of each; body absent / valid / invalid", bounds="<= 3 parameters"),
    Ob(fn="sibling_parameter_cases", clause="a case presented as valid (and a query labelled valid) holds no out-of-range number, also in the parameters the case does not vary",
       timeout=300, functions=_F, symbolic="whether the second query parameter declares a type (so that a valid baseline value exists for it) or only bounds; mode subset", bounds="2 operations x 3 mode subsets", stubs=_ST),
    Ob(fn="query_cases", clause="the case as a whole is labelled negative exactly when one of its parts is invalid, a required parameter was removed, a parameter was duplicated or an undocumented method is used; boundary numbers in the query carry the right part label",
       timeout={"quick": 400, "thorough": 900}, params=None, functions=_F, symbolic="which of 7 (minimum, maximum) pairs incl. 0 and equal bounds, mode subset (3), configured unexpected methods (5 sets incl. ones overlapping documented methods)",
       bounds="7 bound pairs (the numeric kernels are decided for all ints in C03_values); one operation with a required integer query parameter and an optional string header", stubs=_ST, path_timeout=60),
    Ob(fn="body_cases", clause="same for request bodies: every boundary value of the body (not only the first) is labelled by its own validity, over two media types",
       timeout={"quick": 400, "thorough": 900}, functions=_F, symbolic="which of 7 (minimum, maximum) pairs, mode subset, unexpected methods", bounds="7 bound pairs; integer JSON body + enum text body", stubs=_ST, path_timeout=60),
]
