"""C15 - with sanitization on, secrets never appear in output; customising the key/marker lists changes exactly that set.

Real code executed symbolically: schemathesis.core.output.sanitization.sanitize_value, sanitize_url, configure, extend,
SanitizationConfig.from_config/extend; schemathesis.transport.prepare.prepare_request(sanitize=True); Case.as_curl_command ->
schemathesis.core.curl.generate.
Symbolic: the secret value (alphabet disjoint from all constant text, so "secret not a substring of the output" is meaningful),
which key spelling carries it, nesting, list values, URL userinfo text (may contain '@' and ':'), the customisation history.
"""
from vf.h import *
from vf.util import mk_case, pick

import schemathesis
from schemathesis.core import curl
from schemathesis.core.output import sanitization as sz
from schemathesis.transport import prepare

N = tier(2, 3)
NU = tier(3, 4)
SECRET_ALPHABET = "QJZ@:"  # Q, J, Z occur in none of the constant text (curl -X, header names, [Filtered], URLs)

# (key, sensitive under the default configuration?)
KEYS = [
    ("Authorization", True), ("AUTHORIZATION", True), ("authorization", True), ("Cookie", True), ("Set-Cookie", True), ("X-API-Key", True),
    ("x_api_key", True), ("PHPSESSID", True), ("X-Custom-Token", True), ("my_secret_value", True), ("OldPassword2", True), ("monkey", True),
    ("AuthMode", True), ("sessionAffinity", True), ("Content-Type", False), ("X-Trace-Id", False), ("page", False), ("Accept", False), ("tok", False),
]


def _is_secret_text(v: str) -> bool:
    return all(c in "QJZ" for c in v) and len(v) >= 1


def _leaks(secret: str, text) -> bool:
    return secret in str(text)


def value_sanitized(k: int, secret: str, as_list: bool, depth: int, sibling: int, extra: int) -> bool:
    """
    pre: 0 <= k < len(KEYS) and len(secret) <= N and _is_secret_text(secret) and 0 <= depth <= 2 and 0 <= sibling < len(KEYS) and extra == param(0) % 3 and depth == param(0) // 3 % 3
    post: _
    """
    key, sensitive = pick(KEYS, k)
    other_key, other_sensitive = pick(KEYS, sibling)
    values = [secret] + [secret + "J", "Q" + secret][:extra]  # a header / query parameter may carry several values
    inner = {key: list(values) if as_list else secret}
    if other_key != key:
        inner[other_key] = "plain"
    item = inner
    if depth == 1:
        item = {"wrapper": inner}
    elif depth == 2:
        item = {"outer": [{"wrapper": inner}, "x"]}
    sz.sanitize_value(item)
    got = inner[key]
    if sensitive:
        if as_list:
            if not got or any(v != "[Filtered]" for v in got):
                return False  # every value of a multi-valued sensitive key is redacted
        elif got != "[Filtered]":
            return False
    elif got != (values if as_list else secret):
        return False  # benign values are left alone
    if other_key != key and inner[other_key] != ("[Filtered]" if other_sensitive else "plain"):
        return False
    return True


_PARTS = []


def _urlsplit(url: str):
    """urllib.parse.urlsplit for the URL this harness just built (scheme://netloc/path?query): the parts are handed back as they
    were assembled, so that only the netloc stays symbolic (RFC 3986 section 3: the authority ends at the next '/')."""
    from urllib.parse import SplitResult

    scheme, netloc, path, query = _PARTS
    if url != scheme + "://" + netloc + path + "?" + query:
        raise AssertionError("unexpected URL")
    return SplitResult(scheme, netloc, path, query, "")


def url_sanitized(userinfo: str, k: int, has_userinfo: bool, with_port: bool) -> bool:
    """
    pre: 1 <= len(userinfo) <= NU and all(c in SECRET_ALPHABET for c in userinfo) and any(c in "QJZ" for c in userinfo)
    pre: 0 <= k <= 3 and with_port == bool(param(0) % 2) and has_userinfo == bool(param(0) // 2 % 2)
    post: _
    """
    secret = "QJ"  # the query value goes through urllib's byte-level quoting (realised by CrossHair): concrete here, symbolic in value_sanitized
    qkey, sensitive = pick([("api_key", True), ("access_token", True), ("page", False), ("q", False)], k)
    host = "h.io:8081" if with_port else "h.io"
    netloc = (userinfo + "@" if has_userinfo else "") + host
    query = qkey + "=" + secret + "&lim=1"
    url = "http://" + netloc + "/a/b?" + query
    _PARTS[:] = ["http", netloc, "/a/b", query]
    saved = sz.urlsplit
    sz.urlsplit = _urlsplit
    try:
        out = sz.sanitize_url(url)
    finally:
        sz.urlsplit = saved
    # exact expectation (cheap to decide): credentials replaced as a whole whatever '@' / ':' they contain, sensitive query value redacted
    want_query = (qkey + "=%5BFiltered%5D" if sensitive else qkey + "=" + secret) + "&lim=1"
    want = "http://" + ("[Filtered]@" if has_userinfo else "") + host + "/a/b?" + want_query
    return out == want


CUSTOM = [("nothing", None, None), ("extend keys", ["X-Trace-Id"], None), ("extend markers", None, ["trace"]),
          ("configure keys", ["x-trace-id"], None), ("configure markers", None, ["trace"])]


def customised_config(how: int, via_url: bool, nested: bool) -> bool:
    """
    pre: 0 <= how < len(CUSTOM)
    post: _
    """
    secret = "QJ"
    # "customising its key/marker lists changes exactly that set": after extend()/configure() the new names are redacted through
    # every entry point that does not pass an explicit config
    name, keys, markers = pick(CUSTOM, how)
    saved = sz._DEFAULT_SANITIZATION_CONFIG
    try:
        if name.startswith("extend"):
            sz.extend(**({"keys_to_sanitize": keys} if keys else {"sensitive_markers": markers}))
        elif name.startswith("configure"):
            sz.configure(**({"keys_to_sanitize": keys} if keys else {"sensitive_markers": markers}))
        if via_url:
            out = sz.sanitize_url("http://h.io/a?x-trace-id=" + secret + "&authorization=" + secret + "&lim=1")
            trace_hidden = ("x-trace-id=" + secret) not in out
            auth_hidden = ("authorization=" + secret) not in out
        else:
            headers = {"X-Trace-Id": secret, "Authorization": secret, "Accept": "a"}
            item = {"h": headers} if nested else headers
            sz.sanitize_value(item)
            trace_hidden = headers["X-Trace-Id"] == "[Filtered]"
            auth_hidden = headers["Authorization"] == "[Filtered]"
            if headers["Accept"] != "a":
                return False
    finally:
        sz._DEFAULT_SANITIZATION_CONFIG = saved
    if trace_hidden != (how != 0):
        return False
    # `configure` REPLACES the list it is given: with keys replaced by [x-trace-id], "authorization" is still caught by the "auth" marker
    return auth_hidden


_OK = {"responses": {"200": {"description": "OK"}}}
RAW = {"openapi": "3.0.2", "info": {"title": "t", "version": "1"}, "paths": {"/a": {"get": dict(_OK, parameters=[
    {"name": k, "in": "query", "schema": {"type": "string"}} for k in ("api_key", "page")])}}}
SCHEMA = schemathesis.openapi.from_dict(RAW)
SCHEMA_USERINFO = schemathesis.openapi.from_dict(RAW)
OP = SCHEMA["/a"]["GET"]


class FakeRequest:
    """requests.Request(**kwargs).prepare() without urllib's byte-level quoting (realises every character under CrossHair)."""

    def __init__(self, **kwargs):
        self.kwargs = kwargs

    def prepare(self):
        kw = self.kwargs
        self.method = kw["method"]
        params = kw.get("params") or {}
        self.url = kw["url"] + ("?" + "&".join("%s=%s" % (k, v) for k, v in params.items()) if params else "")
        self.headers = dict(kw["headers"])
        for k, v in (kw.get("cookies") or {}).items():
            self.headers["Cookie"] = "%s=%s" % (k, v)
        self.body = None
        return self


def curl_command_clean(secret: str, where: int, sanitize: bool, nested: bool) -> bool:
    """
    pre: len(secret) <= N and _is_secret_text(secret) and 0 <= where <= 3
    post: _
    """
    import requests

    headers, query, cookies, extra = {"Accept": "a"}, {"page": "1"}, None, None
    if where == 0:
        headers["Authorization"] = "Bearer " + secret
    elif where == 1:
        query["api_key"] = secret
    elif where == 2:
        cookies = {"sessionid": secret}
    else:
        extra = {"X-Api-Key": secret}
    if nested and where == 1:
        query["filter"] = {"token": secret, "tags": ["x"]}
    case = mk_case(OP, "c0", headers=headers, query=query, cookies=cookies)
    before = (dict(headers), {k: (dict(v) if isinstance(v, dict) else v) for k, v in query.items()}, None if cookies is None else dict(cookies))
    saved = requests.Request, curl.quote, SCHEMA.output_config.sanitize
    requests.Request, curl.quote = FakeRequest, (lambda s: "'" + s + "'")
    SCHEMA.output_config.sanitize = sanitize
    try:
        command = case.as_curl_command(headers=extra)
    finally:
        requests.Request, curl.quote, SCHEMA.output_config.sanitize = saved
    if (case.headers, case.query, case.cookies) != before:
        return False  # redaction is confined to the printed command: the case that is (re)sent keeps its real values
    if sanitize:
        return secret not in command and "page=1" in command and "Accept: a" in command
    return secret in command  # turning sanitization off shows the real values again


OBLIGATIONS = [
    Ob(fn="value_sanitized", props=["C15"], clause="values under credential-bearing names (exact keys in any letter case, names containing a sensitive marker) are replaced by the redaction marker at any nesting depth, lists included; others are untouched",
       timeout={"quick": 300, "thorough": 900}, params=range(9), functions=["schemathesis.core.output.sanitization.sanitize_value"],
       symbolic="which of 19 key spellings carries the secret, the secret text, scalar or list of 1-3 values, nesting depth 0-2, a sibling key", bounds={"quick": "secret <= 2 characters", "thorough": "<= 3"}),
    Ob(fn="url_sanitized", clause="URL userinfo and sensitive query parameters do not appear in sanitized URLs; other parts survive",
       timeout={"quick": 300, "thorough": 900}, params=range(4), functions=["schemathesis.core.output.sanitization.sanitize_url"],
       symbolic="userinfo text over {Q,J,Z,@,:}, explicit port or not, which query key (2 sensitive, 2 benign)", bounds={"quick": "userinfo and secret <= 2 characters", "thorough": "<= 3"},
       stubs=["urllib.parse.urlsplit replaced by a splitter for scheme://netloc/path?query (CPython's implementation takes ~5 s per symbolic path)"],
       outside=["percent-encoded userinfo, IPv6 hosts"]),
    Ob(fn="customised_config", props=["C15"], clause="customising the key / marker lists at run time changes exactly that set, through every entry point",
       timeout=300, functions=["schemathesis.core.output.sanitization.configure", "schemathesis.core.output.sanitization.extend", "schemathesis.core.output.sanitization.SanitizationConfig.from_config",
                               "schemathesis.core.output.sanitization.SanitizationConfig.extend", "schemathesis.core.output.sanitization.sanitize_value", "schemathesis.core.output.sanitization.sanitize_url"],
       symbolic="which customisation was applied before (none / extend / configure, keys or markers), entry point (value or URL), nesting", bounds="5 histories of one customisation call"),
    Ob(fn="curl_command_clean", clause="the reproduction command contains no secret from headers, query, cookies or user-supplied extra headers when sanitization is on, and the real values when it is off; producing it leaves the case itself (the data that is sent) unchanged",
       timeout={"quick": 300, "thorough": 600}, functions=["schemathesis.generation.case.Case.as_curl_command", "schemathesis.transport.prepare.prepare_request", "schemathesis.core.curl.generate"],
       symbolic="the secret, the place it travels in (4), the sanitize switch", bounds={"quick": "secret <= 2 characters", "thorough": "<= 3"},
       stubs=["requests.Request.prepare replaced by plain concatenation (no percent-encoding)", "shlex.quote replaced by plain single quotes"],
       outside=["console / JUnit / VCR / HAR writers end to end (C16 covers the cassette text)"]),
]
