"""C01.a - the pattern/length rewrite handed to the generator only narrows the declared schema (E2: z3 regular-language queries).

Real code (run concretely on every member of a generated schema family): schemathesis.specs.openapi.converter.update_pattern_in_schema,
schemathesis.specs.openapi.patterns.update_quantifier and everything below it.
Symbolic: the generated string s - unbounded, any length, whole z3 character range.
Queries per rewritten schema S' of S, under Python re.search semantics:
  (i)  exists s: s |= S' and not s |= S      must be unsat (else a positive draw can violate the declared schema)
  (ii) S satisfiable and S' unsatisfiable      must not happen (else a satisfiable operation is reported as impossible to generate)
Every sat model is replayed through jsonschema (the public meaning of the schema) before being reported.
"""
from vf.h import *

import copy
import itertools
import os
import time

import jsonschema
import z3

from vf import rx
from schemathesis.specs.openapi.converter import update_pattern_in_schema

ATOMS_ALL = ["a", "[a-c]", r"\d", ".", "[^x]", "(ab)", "(a|b)", r"\+", "[+]"]
QUANTS_ALL = ["", "*", "+", "?", "{2}", "{1,3}", "{2,}", "*?", "+?"]
ANCHORS = [("", ""), ("^", ""), ("", "$"), ("^", "$"), (r"\A", r"\Z")]


def lengths(maxn):
    out = []
    for b in range(0, maxn + 1):
        out.append((None, b))
    for a in range(1, maxn + 1):
        out.append((a, None))
    for a in range(0, maxn + 1):
        for b in range(a, maxn + 1):
            out.append((a, b))
    return out


def family():
    """Deterministic enumeration of (pattern, minLength, maxLength)."""
    maxn = tier(3, 5)
    lens = lengths(maxn)
    pats = []
    # one quantified part, every anchor combination
    for atom in ATOMS_ALL:
        for q in QUANTS_ALL:
            for pre, post in ANCHORS:
                pats.append(pre + atom + q + post)
    # several quantified parts with literals in between (the `_handle_anchored_pattern` family) - also unanchored / half-anchored
    atoms2 = tier(["a", "[a-c]"], ["a", "[a-c]", r"\d", "(ab)", "."])
    quants2 = tier(["*", "+", "{1,3}", "{2,}"], ["*", "+", "?", "{2}", "{1,3}", "{2,}", "*?"])
    parts = [a + q for a in atoms2 for q in quants2]
    glue = ["", "-", r"\+", "[+]"]
    for p1 in parts:
        for p2 in parts:
            for g in glue:
                for tail in ("", "c"):
                    for pre, post in (("^", "$"), (r"\A", r"\Z")) + tier((), (("", ""), ("^", ""))):
                        pats.append(pre + p1 + g + p2 + tail + post)
    if THOROUGH:
        parts3 = [a + q for a in ["a", "[a-c]", r"\d"] for q in ["*", "+", "{1,3}"]]
        for p1 in parts3:
            for p2 in parts3:
                for p3 in parts3:
                    pats.append("^" + p1 + p2 + "-" + p3 + "$")
    seen = set()
    for p in pats:
        if p in seen:
            continue
        seen.add(p)
        for a, b in lens:
            yield p, a, b


K = 16  # the family is split over K processes
stats_unknown: list = []
P = param(0)


def mk(pattern, a, b):
    s = {"type": "string", "pattern": pattern}
    if a is not None:
        s["minLength"] = a
    if b is not None:
        s["maxLength"] = b
    return s


def rewrite(schema):
    out = copy.deepcopy(schema)
    update_pattern_in_schema(out)
    return out


def js_valid(schema, value) -> bool:
    return jsonschema.Draft202012Validator(schema).is_valid(value)


def lengths_of(schema, s):
    cs = []
    if schema.get("minLength") is not None:
        cs.append(z3.Length(s) >= schema["minLength"])
    if schema.get("maxLength") is not None:
        cs.append(z3.Length(s) <= schema["maxLength"])
    return z3.And(*cs) if cs else z3.BoolVal(True)


def check_instance(pattern, a, b, stats, timeout_ms=4000):
    """Returns a list of violation dicts (each already replayed through jsonschema)."""
    S = mk(pattern, a, b)
    S2 = rewrite(S)
    if S2 == S:
        stats["unchanged"] += 1
        return []
    stats["rewritten"] += 1
    out = []
    try:
        full2 = rx.search_language(S2["pattern"], full=True)
        rx.search_language(pattern)
    except rx.Unsupported:
        stats["unsupported"] += 1
        return []

    def ask(constraint, kind):
        r, val = rx.solve(constraint, timeout_ms)
        if r == "unknown":  # one retry with a longer budget
            r, val = rx.solve(constraint, timeout_ms * 5)
            if r == "unknown" and len(stats_unknown) < 5:
                stats_unknown.append("%s %r %s %s" % (kind, pattern, a, b))
        stats["queries"] += 1
        stats[r] += 1
        return r, val

    # (a) main obligation: a string that fully matches the rewritten pattern (and the length keywords that were kept) satisfies the declared schema
    r, val = ask(lambda s: z3.And(z3.InRe(s, full2), lengths_of(S2, s), z3.Not(rx.schema_constraint(s, S))), "core")
    if r == "sat":
        out.append({"kind": "core", "pattern": pattern, "minLength": a, "maxLength": b, "rewritten": S2, "witness": val,
                    "replayed": js_valid(S2, val) and not js_valid(S, val)})
    # (b) the rest of the rewritten schema's language: strings matched by search that are not a full match (text around the match,
    #     a final newline after `$`). This is exactly the known class C01-search-semantics; the query is restricted to it.
    r, val = ask(lambda s: z3.And(rx.schema_constraint(s, S2), z3.Not(z3.InRe(s, full2)), z3.Not(rx.schema_constraint(s, S))), "junk")
    if r == "sat":
        out.append({"kind": "search_junk", "pattern": pattern, "minLength": a, "maxLength": b, "rewritten": S2, "witness": val,
                    "replayed": js_valid(S2, val) and not js_valid(S, val)})
    # (c) a satisfiable declared schema must stay satisfiable
    r2, _ = ask(lambda s: rx.schema_constraint(s, S2), "nonempty")
    if r2 == "unsat":
        r3, val3 = ask(lambda s: rx.schema_constraint(s, S), "orig-nonempty")
        if r3 == "sat":
            out.append({"kind": "emptied", "pattern": pattern, "minLength": a, "maxLength": b, "rewritten": S2, "witness": val3,
                        "replayed": js_valid(S, val3)})
    return out


def rewrite_inclusion(replay=None):
    if replay is not None:
        S = mk(replay["pattern"], replay["minLength"], replay["maxLength"])
        S2 = rewrite(S)
        w = replay["witness"]
        if replay["kind"] in ("core", "search_junk"):
            return js_valid(S2, w) and not js_valid(S, w)
        return js_valid(S, w) and rx.solve(lambda s: rx.schema_constraint(s, S2))[0] == "unsat"
    from collections import Counter

    stats = Counter()
    violations, samples, errors = [], [], []
    junk_count = 0
    checked_patterns = set()
    t0 = time.time()
    budget = float(os.environ.get("VF_BUDGET_S") or 0)
    for i, (pattern, a, b) in enumerate(family()):
        if i % K != P:
            continue
        if budget and time.time() - t0 > 0.85 * budget:
            stats["not_reached"] += 1  # out of time: the rest of this shard's family is reported as not decided
            continue
        stats["instances"] += 1
        try:
            vs = check_instance(pattern, a, b, stats)
        except Exception as e:  # translation or solver failure: inconclusive for this instance, never a violation
            stats["errors"] += 1
            if len(errors) < 3:
                errors.append("%s %s %s: %r" % (pattern, a, b, e))
            continue
        v = None
        for v in vs:
            if not v["replayed"]:
                errors.append("model did not replay through jsonschema: %r" % (v,))
                continue
            if v["kind"] == "search_junk":
                junk_count += 1
                if junk_count > 3:  # the class is reported with a few witnesses per shard, not once per instance
                    continue
            violations.append({"args": v, "what": "%s: %r minLength=%s maxLength=%s -> %r; witness %r" % (
                v["kind"], pattern, a, b, v["rewritten"], v["witness"])})
        # translator validation, once per distinct pattern (original and rewritten)
        for pat in (pattern, rewrite(mk(pattern, a, b)).get("pattern")):
            if pat not in checked_patterns:
                checked_patterns.add(pat)
                try:
                    n, bad = rx.self_check(pat)
                    stats["translator_checks"] += n
                    if bad:
                        errors.append("translator disagrees with re.search: %r" % (bad,))
                except rx.Unsupported:
                    pass
        if len(samples) < 4 and stats["rewritten"] and not vs and a is not None and b is not None:
            S = mk(pattern, a, b)
            if rewrite(S) != S:
                samples.append({"schema": S, "rewritten": rewrite(S), "query": "exists s: fullmatch(rewritten pattern, s) and kept lengths and not s |= schema", "answer": "unsat"})
    hard_errors = [e for e in errors if e.startswith("translator") or e.startswith("model did not")]
    return {
        "queries": stats["queries"], "unsat": stats["unsat"], "sat": stats["sat"], "unknown": stats["unknown"] + stats["errors"], "search_junk_instances": junk_count,
        "instances": stats["instances"], "unchanged": stats["unchanged"], "rewritten": stats["rewritten"], "unsupported": stats["unsupported"],
        "translator_checks": stats["translator_checks"], "violations": violations, "samples": samples, "errors": hard_errors,
        "soft_errors": errors[:3], "unknown_instances": stats_unknown, "solver_s": round(time.time() - t0, 1),
        "truncated": bool(stats["not_reached"]), "instances_not_reached": stats["not_reached"],
    }


OBLIGATIONS = [
    Ob(fn="rewrite_inclusion", kind="z3", clause="pattern x minLength/maxLength: every string accepted by the schema handed to the generator is accepted by the declared schema, and a satisfiable schema stays satisfiable",
       timeout={"quick": 400, "thorough": 2400}, params=range(K),
       functions=["schemathesis.specs.openapi.converter.update_pattern_in_schema", "schemathesis.specs.openapi.patterns.update_quantifier",
                  "schemathesis.specs.openapi.patterns._handle_parsed_pattern", "schemathesis.specs.openapi.patterns._handle_anchored_pattern",
                  "schemathesis.specs.openapi.patterns._distribute_length_constraints", "schemathesis.specs.openapi.patterns._update_quantifier",
                  "schemathesis.specs.openapi.patterns._build_size", "schemathesis.specs.openapi.patterns._strip_quantifier"],
       symbolic="the string s: unbounded length, any character of z3's Unicode sort (decided per rewritten schema by z3's sequence/regex theory)",
       bounds={"quick": "pattern family: 9 atoms x 9 quantifiers x 5 anchorings; 2 quantified parts (2 atoms x 4 quantifiers) with 4 glue literals, optional tail literal, ^$ and \\A\\Z; minLength/maxLength absent or 0..3",
               "thorough": "adds atoms \\d (ab) . and quantifiers ? {2} *? for 2-part patterns, unanchored and half-anchored 2-part patterns, 3-part patterns; lengths 0..5"},
       stubs=["hypothesis-jsonschema from_schema contract: draws satisfy the schema they are given (trusted)", "vf/rx.py translation sre->z3 (validated against re.search on solver models each run)"],
       outside=["patterns outside the family; lookarounds, backreferences, inner anchors, flags", "format keyword, codec/allow_x00 alphabet restrictions"]),
]
