"""C05 - a failure found on one operation is never taken for the failure of another: identity (==, hash, dict / set membership, used by the
run statistic and by the stateful "seen in run" bookkeeping to report each distinct failure once) includes the operation.

Real code executed symbolically: schemathesis.core.failures.Failure.__eq__/__hash__/_unique_key and the overrides in ServerError,
ResponseTimeExceeded, MalformedJson, CustomFailure; schemathesis.openapi.checks.UndefinedStatusCode / JsonSchemaError ... (by construction below).
"""
from vf.h import *
from vf.util import pick

from schemathesis.core import failures as F
from schemathesis.openapi import checks as OC

OPS = ["GET /a", "GET /b", "POST /a"]


def _make(kind: int, operation: str, variant: int):
    if kind == 0:
        return F.Failure(operation=operation, title="t", message=pick(["m0", "m1"], variant))
    if kind == 1:
        return F.ServerError(operation=operation, status_code=pick([500, 502], variant))
    if kind == 2:
        return F.ResponseTimeExceeded(operation=operation, elapsed=1.0, deadline=1, message="slow", title="Response time limit exceeded" if variant == 0 else "Other")
    if kind == 3:
        return F.MalformedJson(operation=operation, validation_message="v", document="{", position=1, lineno=1, colno=1, message="bad", title="JSON deserialization error" if variant == 0 else "Other")
    if kind == 4:
        return OC.JsonSchemaError(operation=operation, validation_message="v", schema_path=["properties", "a" if variant == 0 else "b"], schema={}, instance_path=[], instance=1, message="m")
    if kind == 5:
        return OC.UndefinedStatusCode(operation=operation, status_code=pick([404, 418], variant), defined_status_codes=["200"], allowed_status_codes=[200], message="m")
    return OC.MissingHeaders(operation=operation, missing_headers=["X-A"], message=pick(["missing A", "missing B"], variant))


def failure_identity(kind: int, op1: int, op2: int, v1: int, v2: int) -> bool:
    """
    pre: kind == param(0) % 7 and 0 <= op1 <= 2 and 0 <= op2 <= 2 and 0 <= v1 <= 1 and 0 <= v2 <= 1
    post: _
    """
    f1 = _make(kind, pick(OPS, op1), v1)
    f2 = _make(kind, pick(OPS, op2), v2)
    same = op1 == op2 and v1 == v2
    if (f1 == f2) != same or (f2 == f1) != same:
        return False
    if same and hash(f1) != hash(f2):
        return False
    # the bookkeeping built on it: first-seen map and sets
    seen = {f1: "case-1"}
    if (f2 in seen) != same:
        return False
    return len({f1, f2}) == (1 if same else 2)


OBLIGATIONS = [
    Ob(fn="failure_identity", clause="each distinct failure is reported once per operation: two failures are the same only if class, operation and distinguishing key agree (a server error on one operation never hides the one on another)",
       timeout=200, params=range(7), functions=["schemathesis.core.failures.Failure.__eq__", "schemathesis.core.failures.Failure.__hash__", "schemathesis.core.failures.Failure._unique_key (and the overrides of ServerError, ResponseTimeExceeded, MalformedJson, JsonSchemaError, UndefinedStatusCode, MissingHeaders)"],
       symbolic="failure class (7), the operation of each of two failures (3), their distinguishing variant (2)", bounds="7 classes x 3 x 3 operations x 2 x 2 variants"),
]
