"""C10.a - JSON pointer resolution used by `$request.body#...` / `$response.body#...` link expressions.

Real code: schemathesis.core.transforms.resolve_pointer (executed symbolically by CrossHair).
Oracle: an independent RFC 6901 scanner (character by character, no str.replace/split).
"""
from vf.h import *

from schemathesis.core.transforms import UNRESOLVABLE, resolve_pointer

N = tier(4, 5)
# The input space is partitioned over processes (the driver enumerates VF_PARAM); the union of the classes is every
# string with len <= N: class 0 = shorter than N or not starting with '/', classes 1.. = len == N, by second character.
CLASSES = ["short-or-relative", "second=~", "second=/", "second other", "second=a", "second=d", "second=l ascii tail", "second=m", "second=0", "second=1 ascii tail",
           "second=l non-ascii tail", "second=1 non-ascii tail"]
P = param(0)


def in_class(pointer: str) -> bool:
    if len(pointer) < N or pointer[0] != "/":
        return P == 0
    c = pointer[1]
    if c == "~":
        return P == 1
    if c == "/":
        return P == 2
    k = "adlm01".find(c)
    if k >= 0:
        if c in "l1" and not all(ord(x) < 128 for x in pointer[2:]):
            # int() accepts every Unicode decimal digit (several hundred characters, one path each): separate, thorough-only classes
            return P == (10 if c == "l" else 11)
        return P == 4 + k
    return P == 3

DOC = {
    "a/b": 1,
    "m~n": 2,
    "~1": 3,
    "": 4,
    "/": 5,
    "~": 6,
    "d": {"x": 7, "": 8, "~0": 9},
    "l": [10, 11, {"k": 12}],
    "a": {"b": 13, "/": 15},
    "0": 14,
    "~0": 16,
    "~01": 17,
    "/1": 18,
    "1": [20, [21, 22]],
}


def rfc_tokens(pointer: str):
    """RFC 6901 section 3/4: reference tokens, '~1' -> '/', '~0' -> '~', decoded left to right in one pass."""
    tokens = []
    cur = []
    i = 1
    n = len(pointer)
    while i < n:
        c = pointer[i]
        if c == "/":
            tokens.append("".join(cur))
            cur = []
        elif c == "~" and i + 1 < n and pointer[i + 1] == "0":
            cur.append("~")
            i += 1
        elif c == "~" and i + 1 < n and pointer[i + 1] == "1":
            cur.append("/")
            i += 1
        else:
            cur.append(c)  # a lone '~' is an error in the RFC; the oracle leaves such pointers unconstrained (see below)
        i += 1
    tokens.append("".join(cur))
    return tokens


def rfc_valid_escapes(pointer: str) -> bool:
    i = 0
    while i < len(pointer):
        if pointer[i] == "~":
            if i + 1 >= len(pointer) or pointer[i + 1] not in "01":
                return False
            i += 1
        i += 1
    return True


def rfc_index(token: str):
    """array-index = %x30 / ( %x31-39 *(%x30-39) ); returns int or None."""
    if token == "0":
        return 0
    if not token or token[0] not in "123456789":
        return None
    for c in token:
        if c not in "0123456789":
            return None
    return int(token)


_NO = object()


def rfc_resolve(doc, pointer: str):
    """Returns the referenced value, UNRESOLVABLE, or _NO when the RFC gives no unambiguous answer."""
    if pointer == "":
        return doc
    if pointer[0] != "/":
        return UNRESOLVABLE
    if not rfc_valid_escapes(pointer):
        return _NO
    target = doc
    for tok in rfc_tokens(pointer):
        if isinstance(target, dict):
            found = _NO
            for k, v in target.items():
                if k == tok:
                    found = v
            if found is _NO:
                return UNRESOLVABLE
            target = found
        elif isinstance(target, list):
            idx = rfc_index(tok)
            if idx is None:
                return _NO  # not an RFC index ('-1', '+1', '01', ' 1'): property is silent, left unconstrained
            if idx >= len(target):
                return UNRESOLVABLE
            target = target[idx]
        else:
            return UNRESOLVABLE
    return target


def pointer_rfc(pointer: str) -> bool:
    """
    pre: len(pointer) <= N
    pre: in_class(pointer)
    post: _
    """
    expected = rfc_resolve(DOC, pointer)
    got = resolve_pointer(DOC, pointer)
    if expected is _NO:
        return True
    if expected is UNRESOLVABLE:
        return got is UNRESOLVABLE
    return got is expected or (type(got) is type(expected) and got == expected)


OBLIGATIONS = [
    Ob(
        fn="pointer_rfc",
        clause="$request.body#/pointer and $response.body#/pointer denote the RFC 6901 referenced value, incl. ~0/~1 escapes",
        timeout={"quick": 90, "thorough": 600},
        params={"quick": range(10), "thorough": range(12)},
        param_names=CLASSES,
        functions=["schemathesis.core.transforms.resolve_pointer"],
        symbolic="pointer text: any Unicode string",
        bounds={"quick": "len(pointer) <= 4, partitioned into 10 classes decided in parallel (list-index tokens with non-ASCII characters: thorough only); one concrete 14-key document with escape-sensitive keys, nested dict/list",
                "thorough": "len(pointer) <= 5, 12 classes; same document"},
        outside=["pointers longer than the bound", "array tokens that are not RFC 6901 indices (int() leniency: '-1', '+1', '01') are left unconstrained",
                 "pointers with a '~' not followed by 0/1 (RFC error) are left unconstrained"],
    ),
]
