"""C01.e-f - the JSON Schema built for generation keeps every declared constraint; strategy caches never cross
locations / media types / generation modes.

Real code executed symbolically: OpenAPI20Parameter / OpenAPI30Parameter / OpenAPI30Body .as_json_schema, from_open_api_to_json_schema,
transform_keywords, parameters_to_json_schema, get_schema_for_location, _get_body_strategy, get_parameters_strategy (+ their caches).
Stub: the strategy factory (make_positive_strategy -> hypothesis_jsonschema.from_schema) returns a marker recording the schema it received.
"""
from vf.h import *
from vf.util import pick

import schemathesis
from schemathesis.generation import GenerationConfig
from schemathesis.specs.openapi import _hypothesis as oh
from schemathesis.specs.openapi.parameters import parameters_to_json_schema

# every constraining keyword of a Swagger 2.0 non-body parameter / an OpenAPI 3.0 schema object, with a sample value
KEYWORDS = [
    ("type", "string"), ("format", "date"), ("maximum", 7), ("exclusiveMaximum", True), ("minimum", 1), ("exclusiveMinimum", True),
    ("maxLength", 9), ("minLength", 2), ("pattern", "^[0-9]{4}$"), ("maxItems", 3), ("minItems", 1), ("uniqueItems", True),
    ("enum", ["a", "b"]), ("multipleOf", 2), ("items", {"type": "integer"}),
]
KEYWORDS30 = KEYWORDS + [("maxProperties", 3), ("minProperties", 1), ("required", ["k"]), ("properties", {"k": {"type": "integer"}}),
                         ("additionalProperties", False), ("allOf", [{"minLength": 1}]), ("anyOf", [{"minLength": 1}]),
                         ("oneOf", [{"minLength": 1}]), ("not", {"enum": ["z"]})]

RAW20 = {
    "swagger": "2.0", "info": {"title": "t", "version": "1"},
    "paths": {"/a": {"get": {"parameters": [{"name": "q", "in": "query", "type": "string"}, {"name": "h", "in": "header", "type": "string"},
                                            {"name": "r", "in": "query", "type": "integer", "required": True}],
                             "responses": {"200": {"description": "OK"}}}}},
}
RAW30 = {
    "openapi": "3.0.2", "info": {"title": "t", "version": "1"},
    "paths": {"/a": {"post": {
        "parameters": [{"name": "q", "in": "query", "schema": {"type": "string"}}, {"name": "h", "in": "header", "schema": {"type": "string"}},
                       {"name": "r", "in": "query", "required": True, "schema": {"type": "integer"}},
                       {"name": "c", "in": "cookie", "schema": {"type": "string", "maxLength": 3}},
                       {"name": "id", "in": "path", "required": True, "schema": {"type": "integer", "minimum": 1}}],
        "requestBody": {"required": True, "content": {
            "application/json": {"schema": {"type": "object", "properties": {"id": {"type": "integer"}}, "required": ["id"]}},
            "text/plain": {"schema": {"type": "string", "enum": ["x", "y"]}},
            "application/x-www-form-urlencoded": {"schema": {"type": "object", "properties": {"token": {"type": "string"}}, "required": ["token"]}},
        }},
        "responses": {"200": {"description": "OK"}}}}},
}
S20 = schemathesis.openapi.from_dict(RAW20)
S30 = schemathesis.openapi.from_dict(RAW30)
OP20 = S20["/a"]["GET"]
OP30 = S30["/a"]["POST"]
_ = (OP20.query, OP20.headers, OP30.query, OP30.headers, OP30.body)  # force parameter collection at import


def _find(params, name):
    for p in params:
        if p.name == name:
            return p
    raise KeyError(name)


def _keywords_kept(version: int, location: int, i: int, j: int) -> bool:
    op = OP20 if version == 0 else OP30
    name = "q" if location == 0 else "h"
    container = op.query if location == 0 else op.headers
    param = _find(container, name)
    table = KEYWORDS if version == 0 else KEYWORDS30
    chosen = [pick(table, i), pick(table, j)]
    holder = param.definition if version == 0 else param.definition["schema"]
    saved = dict(holder)
    try:
        for key, value in chosen:
            holder[key] = value
        declared = dict(holder)
        schema = param.as_json_schema(op, update_quantifiers=False)
        obj = parameters_to_json_schema(op, container, update_quantifiers=False)
    finally:
        holder.clear()
        holder.update(saved)
    for key, value in chosen:
        if schema.get(key) != value:
            return False  # a declared constraint did not reach the generator's schema
        if obj["properties"][name].get(key) != value:
            return False
    # nothing that is not declared is added, except the header `type: string` default
    for key in schema:
        if key not in declared and not (key == "type" and location == 1):
            return False
    if location == 0 and ("r" not in obj.get("required", []) or "q" in obj.get("required", [])):
        return False
    return obj.get("additionalProperties") is False and obj.get("type") == "object"


def parameter_keywords_20(location: int, i: int, j: int) -> bool:
    """
    pre: 0 <= location <= 1 and 0 <= i < len(KEYWORDS) and 0 <= j < len(KEYWORDS)
    post: _
    """
    return _keywords_kept(0, location, i, j)


def parameter_keywords_30(location: int, i: int, j: int) -> bool:
    """
    pre: 0 <= location <= 1 and 0 <= i < len(KEYWORDS30) and 0 <= j < len(KEYWORDS30)
    post: _
    """
    return _keywords_kept(1, location, i, j)


class Marker:
    """What the strategy factory returns: remembers the schema and arguments it was built from."""

    def __init__(self, schema, location, media_type, factory):
        self.schema, self.location, self.media_type, self.factory, self.ops = schema, location, media_type, factory, []

    def map(self, fn):
        self.ops.append(("map", getattr(fn, "__name__", "?")))
        return self

    def filter(self, fn):
        self.ops.append(("filter", getattr(fn, "__name__", "?")))
        return self

    def __or__(self, other):
        return self


def positive_factory(schema, operation_name, location, media_type, generation_config):
    return Marker(schema, location, media_type, "positive")


def negative_factory(schema, operation_name, location, media_type, generation_config):
    return Marker(schema, location, media_type, "negative")


FACTORIES = [positive_factory, negative_factory]
CONFIG = GenerationConfig()
NCALLS = tier(3, 4)


def _body_calls(calls) -> bool:
    oh._BODY_STRATEGIES_CACHE.clear()
    items = OP30.body.items
    for media_idx, factory_idx in calls:
        parameter = pick(items, media_idx)
        factory = pick(FACTORIES, factory_idx)
        strategy = oh._get_body_strategy(parameter, factory, OP30, CONFIG)
        want = OP30.schema.prepare_schema(parameter.as_json_schema(OP30))
        if not isinstance(strategy, Marker):
            return False
        if strategy.schema != want or strategy.media_type != parameter.media_type or strategy.factory != factory.__name__.split("_")[0]:
            return False
    oh._BODY_STRATEGIES_CACHE.clear()
    return True


def body_strategy_cache(m1: int, f1: int, m2: int, f2: int, m3: int, f3: int, m4: int, f4: int) -> bool:
    """
    pre: all(0 <= m <= 2 for m in (m1, m2, m3, m4)) and all(0 <= f <= 1 for f in (f1, f2, f3, f4))
    post: _
    """
    return _body_calls([(m1, f1), (m2, f2), (m3, f3), (m4, f4)][:NCALLS])


LOCATIONS = ["query", "header", "cookie", "path"]
EXCLUDES = [(), ("q",), ("r",), ("h",)]


def _param_calls(calls) -> bool:
    oh._PARAMETER_STRATEGIES_CACHE.clear()
    for loc_idx, factory_idx, excl_idx in calls:
        location = pick(LOCATIONS, loc_idx)
        factory = pick(FACTORIES, factory_idx)
        exclude = pick(EXCLUDES, excl_idx)
        strategy = oh.get_parameters_strategy(OP30, factory, location, CONFIG, exclude=exclude)
        if not isinstance(strategy, Marker):
            return False
        parameters = getattr(OP30, oh.LOCATION_TO_CONTAINER[location])
        want = oh.get_schema_for_location(OP30, location, parameters)
        for name in exclude:
            want["properties"].pop(name, None)
            if name in want["required"]:
                want["required"].remove(name)
        if strategy.location != location or strategy.factory != factory.__name__.split("_")[0]:
            return False
        if strategy.schema["properties"] != want["properties"] or sorted(strategy.schema["required"]) != sorted(want["required"]):
            return False
        # path parameters are always required and non-empty strings when strings
        if location == "path" and sorted(strategy.schema["required"]) != sorted(strategy.schema["properties"]):
            return False
    oh._PARAMETER_STRATEGIES_CACHE.clear()
    return True


def parameter_strategy_cache(f1: int, e1: int, l2: int, f2: int, e2: int, l3: int, f3: int, e3: int) -> bool:
    """
    pre: all(0 <= l <= 3 for l in (l2, l3)) and all(0 <= f <= 1 for f in (f1, f2, f3)) and all(0 <= e <= 3 for e in (e1, e2, e3))
    post: _
    """
    return _param_calls([(param(0) % 4, f1, e1), (l2, f2, e2), (l3, f3, e3)][: tier(2, 3)])


_FK = ["schemathesis.specs.openapi.parameters.OpenAPIParameter.as_json_schema", "schemathesis.specs.openapi.parameters.OpenAPIParameter.from_open_api_to_json_schema",
       "schemathesis.specs.openapi.parameters.OpenAPIParameter.transform_keywords", "schemathesis.specs.openapi.parameters.parameters_to_json_schema",
       "schemathesis.specs.openapi.converter.to_json_schema_recursive"]
OBLIGATIONS = [
    Ob(fn="parameter_keywords_20", clause="each parameter satisfies the JSON-Schema meaning of its definition: every declared constraining keyword reaches the schema handed to the generator (Swagger 2.0 non-body parameters); required parameters are required",
       timeout={"quick": 150, "thorough": 400}, functions=_FK, symbolic="which two of the 15 constraining keywords are declared (indices), query or header parameter",
       bounds="pairs of keywords out of 15; 2 locations; one concrete operation", stubs=["update_quantifiers=False (the pattern rewrite is C01.a's subject)"]),
    Ob(fn="parameter_keywords_30", clause="same for OpenAPI 3.0 schema objects (24 keywords incl. combinators)",
       timeout={"quick": 240, "thorough": 600}, functions=_FK, symbolic="which two of the 24 keywords are declared, query or header parameter",
       bounds="pairs of keywords out of 24; 2 locations", stubs=["update_quantifiers=False"]),
    Ob(fn="body_strategy_cache", clause="the request body is generated from the schema of ITS media type and generation mode, whatever was drawn before (strategy cache)",
       timeout={"quick": 150, "thorough": 600}, functions=["schemathesis.specs.openapi._hypothesis._get_body_strategy", "schemathesis.specs.openapi.parameters.OpenAPI30Body.as_json_schema"],
       symbolic="sequence of (media type, positive/negative factory) requests on one operation", bounds={"quick": "3 calls x 3 media types x 2 factories", "thorough": "4 calls"},
       stubs=["strategy factory (from_schema / negative_schema) replaced by a marker recording its arguments"]),
    Ob(fn="parameter_strategy_cache", clause="parameters of a location are generated from that location's schema (minus explicitly given names), whatever was requested before",
       timeout={"quick": 200, "thorough": 900}, params=range(4), param_names=["first call: " + l for l in LOCATIONS], functions=["schemathesis.specs.openapi._hypothesis.get_parameters_strategy", "schemathesis.specs.openapi._hypothesis.get_schema_for_location"],
       symbolic="sequence of (location, factory, excluded names) requests", bounds={"quick": "2 calls x 4 locations x 2 factories x 4 exclude sets", "thorough": "3 calls"},
       stubs=["strategy factory replaced by a marker; .map/.filter recorded"]),
]
