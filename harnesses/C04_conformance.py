"""C04 - response conformance checks agree with the documentation.

Real code executed symbolically: schemathesis.specs.openapi.checks.status_code_conformance, _expand_responses, content_type_conformance,
response_headers_conformance, _coerce_header_value, response_schema_conformance; schemathesis.specs.openapi.utils.expand_status_code;
BaseOpenAPISchema.validate_response, _get_response_definitions, get_headers, OpenApi30/SwaggerV20.get_response_schema, get_content_types;
schemathesis.core.media_types.parse/_parse_header/_parseparam/is_json; schemathesis.checks.run_checks.
Symbolic: received status code, received Content-Type text, header values, which constant the body holds, which checks fail.
jsonschema's validation of a concrete body against a concrete schema is trusted.
"""
from vf.h import *
from vf.util import IntBox, mk_case, pick

import http.client

import z3

import schemathesis
from schemathesis.checks import CheckContext, run_checks
from schemathesis.core.failures import Failure, FailureGroup
from schemathesis.core.transport import Response
from schemathesis.specs.openapi import checks as oc
from schemathesis.specs.openapi.utils import expand_status_code


def _const(k):
    # OpenAPI 2.0/3.0 schemas are validated as JSON Schema draft 4: `enum`, not `const`
    return {"type": "object", "properties": {"v": {"enum": [k]}}, "required": ["v"]}


def _json(k):
    return {"content": {"application/json": {"schema": _const(k)}}, "description": "d"}


RESPONSES30 = {
    "200": {"description": "d", "content": {"application/json": {"schema": _const(1)}, "application/problem+json": {"schema": _const(9)}},
            "headers": {"X-Rate": {"required": True, "schema": {"type": "integer", "maximum": 50}}, "X-Opt": {"schema": {"type": "boolean"}}}},
    "2XX": dict(_json(2), headers={"X-Wild": {"required": True, "schema": {"type": "string"}}}),
    "404": _json(3),
    "4XX": _json(4),
    "default": {"description": "d", "content": {"text/plain": {"schema": {"type": "string"}}, "application/json": {"schema": _const(0)}}},
}
RAW30 = {"openapi": "3.0.2", "info": {"title": "t", "version": "1"},
         "paths": {"/full": {"get": {"responses": RESPONSES30}},
                   "/nodefault": {"get": {"responses": {k: v for k, v in RESPONSES30.items() if k != "default"}}},
                   "/nullable": {"get": {"responses": {"200": {"description": "d", "content": {"application/json": {"schema": {"type": "object", "nullable": True}}}}}}}}}
RAW20 = {"swagger": "2.0", "info": {"title": "t", "version": "1"}, "produces": ["application/json"],
         "paths": {"/full": {"get": {"responses": {"200": {"description": "d", "schema": _const(1), "headers": {"X-Rate": {"type": "integer"}}},
                                                   "404": {"description": "d", "schema": _const(3)}, "default": {"description": "d", "schema": _const(0)}}}},
                   "/nullable": {"get": {"responses": {"200": {"description": "d", "schema": {"type": "object", "x-nullable": True}}}}}}}
S30 = schemathesis.openapi.from_dict(RAW30)
S20 = schemathesis.openapi.from_dict(RAW20)
CTX = CheckContext(override=None, auth=None, headers=None, config={}, transport_kwargs=None)


class _Reasons(dict):
    def get(self, key, default=None):
        return default


http.client.responses = _Reasons(http.client.responses)


def resp(status, content_type="application/json", body=b"{}", headers=None):
    h = {} if content_type is None else {"Content-Type": [content_type]}
    for k, v in (headers or {}).items():
        h[k] = [v]
    return Response(status_code=status, headers=h, content=body, request=None, elapsed=0.1, verify=False)


def applicable(keys, status: int):
    """OpenAPI: an explicit code wins over its NXX range, which wins over `default`."""
    if str(status) in keys:
        return str(status)
    wild = "%dXX" % (status // 100)
    if wild in keys:
        return wild
    if "default" in keys:
        return "default"
    return None


HUNDREDS = param(2) % 6  # enumerated by the driver (1..5); the remainder is symbolic
OFFSETS = (0, 1, 4, 99)
BODIES = [b'{"v": 0}', b'{"v": 1}', b'{"v": 2}', b'{"v": 3}', b'{"v": 4}', b'{"v": 9}', b'{"w": 1}', b'{"v": ']
VALUES = [0, 1, 2, 3, 4, 9, None, None]
CONSTS = {"200": 1, "2XX": 2, "404": 3, "4XX": 4, "default": 0}


def _raises(fn, *a):
    try:
        fn(*a)
        return False
    except (Failure, FailureGroup):
        return True


def schema_selection(r: int, body: int, with_default: bool) -> bool:
    """
    pre: r in OFFSETS and 0 <= body < len(BODIES) and 1 <= HUNDREDS <= 5
    post: _
    """
    status = HUNDREDS * 100 + r
    op = S30["/full" if with_default else "/nodefault"]["GET"]
    keys = set(RESPONSES30) if with_default else set(RESPONSES30) - {"default"}
    key = applicable(keys, status)
    failed = _raises(op.validate_response, resp(status, "application/json", pick(BODIES, body)))
    if key is None:
        return not failed  # nothing documented for this status: the schema check has nothing to say
    value = pick(VALUES, body)
    conforms = value is not None and value == CONSTS[key] and body != 7
    return failed == (not conforms)


def definition_selection(r: int, has_rate: bool, rate: int, has_wild: bool, ctype: int) -> bool:
    """
    pre: r in OFFSETS and 1 <= HUNDREDS <= 5 and 0 <= rate <= 99 and 0 <= ctype <= 2
    post: _
    """
    # content types and headers are judged against the definition applicable to the received status
    status = HUNDREDS * 100 + r
    op = S30["/full"]["GET"]
    case = mk_case(op, "c0")
    key = applicable(set(RESPONSES30), status)
    content_type = pick(["application/json", "application/problem+json", "text/plain"], ctype)
    headers = {}
    if has_rate:
        headers["X-Rate"] = "%d" % pick(list(range(0, 100, 9)) + [50, 51], rate % 14)
    if has_wild:
        headers["X-Wild"] = "w"
    response = resp(status, content_type, b'{}', headers)
    documented = list(RESPONSES30[key].get("content", {}))
    ct_failed = _raises(oc.content_type_conformance, CTX, response, case)
    if ct_failed != (content_type not in documented):
        return False
    declared = RESPONSES30[key].get("headers", {})
    expect_header_failure = False
    if "X-Rate" in declared:
        if not has_rate:
            expect_header_failure = True
        elif int(headers["X-Rate"]) > 50:
            expect_header_failure = True
    if "X-Wild" in declared and not has_wild:
        expect_header_failure = True
    return _raises(oc.response_headers_conformance, CTX, response, case) == expect_header_failure


def media_type_schema(ctype: int, body: int) -> bool:
    """
    pre: 0 <= ctype <= 1 and body in (1, 5)
    post: _
    """
    # 200 documents application/json -> const 1 and application/problem+json -> const 9
    op = S30["/full"]["GET"]
    content_type = pick(["application/json", "application/problem+json"], ctype)
    want = 1 if ctype == 0 else 9
    failed = _raises(op.validate_response, resp(200, content_type, pick(BODIES, body), {"X-Rate": "1"}))
    return failed == (pick(VALUES, body) != want)


def status_code_small(status: int, k: int) -> bool:
    """
    pre: 100 <= status <= 599 and 0 <= k < len(SMALL_SETS)
    post: _
    """
    keys = pick(SMALL_SETS, k)
    doc = {"openapi": "3.0.2", "info": {"title": "t", "version": "1"}, "paths": {"/x": {"get": {"responses": {key: {"description": "d"} for key in keys}}}}}
    op = SCHEMAS_SMALL[k]["/x"]["GET"]
    case = mk_case(op, "c0")
    failed = _raises(oc.status_code_conformance, CTX, resp(IntBox(status)), case)
    documented = any(_matches(key, status) for key in keys)
    return failed == (not documented)


def _matches(key, status: int) -> bool:
    key = str(key)
    if key == "default":
        return True
    if key.upper().endswith("XX"):
        return status // 100 == int(key[0])
    return status == int(key)


SMALL_SETS = [["200"], ["200", "404"], [200, "default"], ["201", 404, "500"], ["204"], ["default"]]
SCHEMAS_SMALL = [
    schemathesis.openapi.from_dict({"openapi": "3.0.2", "info": {"title": "t", "version": "1"},
                                    "paths": {"/x": {"get": {"responses": {key: {"description": "d"} for key in keys}}}}})
    for keys in SMALL_SETS
]


def status_table(replay=None):
    """E3: for every set of response keys, z3 proves  forall code in [100,599]: code in expand(keys) <=> reference(code)."""
    import itertools
    import time

    keys_all = ["200", "201", "404", "2XX", "4XX", "5xx", "3Xx", 200, 503]
    t0 = time.time()
    queries = unsat = 0
    violations, samples = [], []
    for n in (1, 2, 3):
        for keys in itertools.combinations(keys_all, n):
            table = sorted(set(oc._expand_responses({k: {} for k in keys})))
            code = z3.Int("code")
            in_table = z3.Or(*[code == c for c in table]) if table else z3.BoolVal(False)
            ref = z3.Or(*[
                (code / 100 == int(str(k)[0])) if str(k).upper().endswith("XX") else (code == int(k)) for k in keys
            ])
            s = z3.Solver()
            s.add(code >= 100, code <= 599, in_table != ref)
            r = s.check()
            queries += 1
            if r == z3.unsat:
                unsat += 1
            elif r == z3.sat:
                c = s.model()[code].as_long()
                violations.append({"args": {"keys": [str(k) for k in keys], "code": c},
                                   "what": "expand_status_code(%r) and the digit-pattern reading disagree on %d" % (keys, c)})
            if len(samples) < 3:
                samples.append({"keys": [str(k) for k in keys], "table_size": len(table), "answer": str(r)})
    if replay is not None:
        keys = replay["keys"]
        table = set(oc._expand_responses({k: {} for k in keys}))
        return (replay["code"] in table) != any(_matches(k, replay["code"]) for k in keys)
    return {"queries": queries, "unsat": unsat, "sat": len(violations), "unknown": queries - unsat - len(violations), "violations": violations,
            "samples": samples, "solver_s": round(time.time() - t0, 1)}


def content_type_match(main: str, sub: str, param_text: str) -> bool:
    """
    pre: len(main) <= CTM and len(sub) <= CTM and len(param_text) <= CTP
    pre: all(c in "ab*+/;= " for c in main + sub) and all(c in PARAM_ALPHABET for c in param_text)
    pre: "/" not in main and ";" not in main + sub and main == main.strip() and sub == sub.strip() and "/" not in sub
    post: _
    """
    doc, has_param, upper = CT_SHAPE // 4, bool(CT_SHAPE // 2 % 2), bool(CT_SHAPE % 2)
    documented = DOCS[doc]
    received = main + "/" + sub
    if has_param:
        received += "; " + param_text
    op = CT_OPS[doc]
    case = mk_case(op, "c0")
    response = resp(200, received.upper() if upper else received)
    try:
        oc.content_type_conformance(CTX, response, case)
        failed = False
    except Failure:
        failed = True
    ok = False
    for option in documented:
        emain, esub = option.split("/")
        if (emain == "*" or emain == main.lower()) and (esub == "*" or esub == sub.lower()):
            ok = True
    return failed == (not ok)


PARAM_ALPHABET = "ab=;" + chr(34)
CTP = tier(1, 2)
CTM = tier(1, 2)
CT_SHAPE = param(0) % 24  # documented list (6) x parameter present x upper-cased: enumerated by the driver
DOCS = [["a/b"], ["a/*"], ["*/*"], ["a/b", "b/a"], ["*/b"], ["a/b+a"]]  # single-letter types keep the received text short
CT_OPS = [
    schemathesis.openapi.from_dict({"openapi": "3.0.2", "info": {"title": "t", "version": "1"},
                                    "paths": {"/x": {"get": {"responses": {"200": {"description": "d", "content": {m: {} for m in doc}}}}}}})["/x"]["GET"]
    for doc in DOCS
]


def header_coercion(value: str) -> bool:
    """
    pre: len(value) <= HV and all(c in HALPHA for c in value)
    post: _
    """
    schema_type = ["string", "integer", "boolean", "null"][param(0) % 4]
    out = oc._coerce_header_value(value, {"type": schema_type})
    if schema_type == "string":
        return out is value or out == value
    if schema_type == "integer":
        canonical = value != "" and all(c in "0123456789" for c in value) and (value == "0" or value[0] != "0")
        if canonical:
            return isinstance(out, int) and not isinstance(out, bool) and out == int(value)
        if not any(c.isdigit() for c in value):
            return out == value  # nothing numeric in it: stays a string (and then fails `type: integer`)
        return True
    if schema_type == "boolean":
        if value in ("true", "false"):
            return out is (value == "true")
        return True
    if value == "null":
        return out is None
    return True


NULLABLE_BODIES = [b"{}", b"null", b"", b"3", b" "]


def nullable_twice(first: int, second: int, version: int) -> bool:
    """
    pre: version == param(0) % 2 and 0 <= first < len(NULLABLE_BODIES) and 0 <= second < len(NULLABLE_BODIES)
    post: _
    """
    # each response is judged by its own body (an object or null conform; a number, or no JSON document at all, do not),
    # however often the same loaded schema validated responses before
    op = (S30 if version == 0 else S20)["/nullable"]["GET"]
    for idx in (first, second, 1, 3):
        failed = _raises(op.validate_response, resp(200, "application/json", pick(NULLABLE_BODIES, idx)))
        if failed != (idx >= 2):
            return False
    return True


def swagger2_selection(r: int, body: int) -> bool:
    """
    pre: r in OFFSETS and body in (0, 1, 3, 6) and 1 <= HUNDREDS <= 5
    post: _
    """
    status = HUNDREDS * 100 + r
    op = S20["/full"]["GET"]
    key = applicable({"200", "404", "default"}, status)
    failed = _raises(op.validate_response, resp(status, "application/json", pick(BODIES, body)))
    value = pick(VALUES, body)
    return failed == (value is None or value != {"200": 1, "404": 3, "default": 0}[key])


HV = tier(2, 3)
HALPHA = "0123456789+-_ .aAeEnNtTrRuUlLfFsSyYoO"


def _mk_check(kind: int, k: int):
    def check(ctx, response, case):
        if kind == 1:
            raise Failure(operation="op", title="t%d" % k, message="m%d" % k)
        if kind == 2:
            raise AssertionError("custom %d" % k)
        if kind == 3:
            raise FailureGroup([Failure(operation="op", title="g%da" % k, message="x"), Failure(operation="op", title="g%db" % k, message="y")])
        return None

    check.__name__ = "check_%d" % k
    return check


def run_checks_collects(k1: int, k2: int, k3: int) -> bool:
    """
    pre: 0 <= k1 <= 3 and 0 <= k2 <= 3 and 0 <= k3 <= 3
    post: _
    """
    kinds = [k1, k2, k3]
    reported, succeeded = [], []

    def on_failure(name, collected, failure):
        collected.add(failure)
        reported.append((name, failure.title))

    case = mk_case(S30["/full"]["GET"], "c0")
    collected = run_checks(case=case, response=resp(200), ctx=CTX, checks=[_mk_check(kind, k) for k, kind in enumerate(kinds)],
                           on_failure=on_failure, on_success=lambda name, case: succeeded.append(name))
    expected = []
    for k, kind in enumerate(kinds):
        if kind == 1:
            expected.append(("check_%d" % k, "t%d" % k))
        elif kind == 2:
            expected.append(("check_%d" % k, "Custom check failed: `check_%d`" % k))
        elif kind == 3:
            expected += [("check_%d" % k, "g%da" % k), ("check_%d" % k, "g%db" % k)]
    # no failure is lost, none is invented; a failing check does not stop the following ones
    if reported != expected:
        return False
    if succeeded != ["check_%d" % k for k, kind in enumerate(kinds) if kind == 0]:
        return False
    return len(collected) >= (1 if expected else 0)


_SEL = ["schemathesis.specs.openapi.schemas.BaseOpenAPISchema.validate_response", "schemathesis.specs.openapi.schemas.BaseOpenAPISchema._get_response_definitions",
        "schemathesis.specs.openapi.schemas.OpenApi30.get_response_schema", "schemathesis.specs.openapi.schemas.OpenApi30.get_content_types",
        "schemathesis.specs.openapi.schemas.BaseOpenAPISchema.get_headers", "schemathesis.specs.openapi.converter.to_json_schema_recursive"]
_H = {"quick": [1, 2, 4], "thorough": [1, 2, 3, 4, 5]}
OBLIGATIONS = [
    Ob(fn="status_table", kind="z3", clause="status-code wildcards: the set of codes a documented key admits is exactly its digit pattern", timeout=120,
       functions=["schemathesis.specs.openapi.utils.expand_status_code", "schemathesis.specs.openapi.checks._expand_responses"],
       symbolic="the received status code (z3 Int) over [100, 599]", bounds="all 1-, 2- and 3-element subsets of 9 keys (exact, NXX in three spellings, int keys)"),
    Ob(fn="status_code_small", clause="an undocumented status code (with no default) is reported, a documented one is not",
       timeout={"quick": 200, "thorough": 600}, functions=["schemathesis.specs.openapi.checks.status_code_conformance"],
       symbolic="received status code 100..599, which of 6 key sets is documented", bounds="6 key sets without wildcards (the comparison `in` is executed symbolically; wildcard tables are covered by status_table)",
       stubs=["Response.status_code is an int-like box (formatting stubbed)", "http.client.responses.get returns its default"]),
    Ob(fn="schema_selection", clause="the body is validated against the schema documented for the received status: explicit code, else its NXX range, else default; conforming bodies pass, others fail",
       timeout={"quick": 200, "thorough": 400}, params=_H, functions=_SEL, symbolic="status = 100*H + r (H enumerated, r symbolic), which of 8 bodies is received, whether `default` is documented",
       bounds="r in {0,1,4,99}; 8 bodies (5 constants, wrong shape, malformed JSON)", stubs=["jsonschema validation of concrete data (trusted)"]),
    Ob(fn="definition_selection", clause="Content-Type and response headers are judged against the definition applicable to the received status (explicit > NXX > default)",
       timeout={"quick": 200, "thorough": 400}, params=_H, functions=_SEL + ["schemathesis.specs.openapi.checks.content_type_conformance", "schemathesis.specs.openapi.checks.response_headers_conformance"],
       symbolic="status remainder, presence/value of X-Rate and X-Wild headers, received media type (3)", bounds="r in {0,1,4,99}; 14 header values"),
    Ob(fn="media_type_schema", clause="the body is validated against the schema of the media type it was sent with", timeout=120, functions=_SEL,
       symbolic="which of the two documented media types the response declares, which constant the body holds", bounds="2 media types x 2 bodies"),
    Ob(fn="swagger2_selection", clause="same selection for Swagger 2.0 responses", timeout={"quick": 200, "thorough": 400}, params=_H,
       functions=["schemathesis.specs.openapi.schemas.SwaggerV20.get_response_schema"] + _SEL[:2], symbolic="status remainder, body", bounds="r in {0,1,4,99}; 4 bodies"),
    Ob(fn="content_type_match", clause="a Content-Type is accepted iff it matches a documented media type (case-insensitively, wildcards, parameters ignored)",
       timeout={"quick": 150, "thorough": 600}, path_timeout=30, params=range(24), functions=["schemathesis.specs.openapi.checks.content_type_conformance", "schemathesis.core.media_types.parse",
                                                                            "schemathesis.core.media_types._parse_header", "schemathesis.core.media_types._parseparam"],
       symbolic="received main type, subtype, parameter text (documented list, parameter presence, upper-casing enumerated: 24 shapes)", bounds={"quick": "type/subtype <= 1 character, parameter <= 1, over a small alphabet incl. * + ; = and the double quote", "thorough": "type/subtype/parameter <= 2"}),
    Ob(fn="header_coercion", clause="documented header types: canonical integers and true/false are coerced, everything else is left for the schema to judge",
       timeout={"quick": 200, "thorough": 600}, params=range(4), param_names=["string", "integer", "boolean", "null"],
       functions=["schemathesis.specs.openapi.checks._coerce_header_value", "schemathesis.core.string_to_boolean"],
       symbolic="header value text (declared type enumerated)", bounds={"quick": "value <= 2 characters over digits, sign/space/underscore/dot and the letters of true/false/yes/no/on/off/null", "thorough": "<= 3"}),
    Ob(fn="nullable_twice", clause="a conforming (object or null) body never yields a failure and a non-conforming one (a number, an empty or blank payload declared as JSON) always does, however many responses the same loaded schema has validated before",
       timeout=300, params=range(2), param_names=["3.0", "2.0"], functions=_SEL + ["schemathesis.specs.openapi.schemas.SwaggerV20.get_response_schema", "schemathesis.specs.openapi.references.ConvertingResolver", "schemathesis.core.transport.Response.json"],
       symbolic="which of 5 bodies (object, null, empty, number, blank) each of two earlier validations received; 3.0 or 2.0", bounds="sequences of 4 validations on one loaded schema"),
    Ob(fn="run_checks_collects", clause="every failing check's failure(s) are collected and reported once, none is lost or invented, later checks still run",
       timeout=200, functions=["schemathesis.checks.run_checks"], symbolic="outcome kind of each of 3 checks (pass / Failure / AssertionError / FailureGroup of 2)", bounds="3 checks x 4 outcomes"),
]
