"""C05 / C11 / C12 - the engine's event protocol, failure propagation and limits, on sequentialised schedules.

Real code executed symbolically: schemathesis.engine.phases.unit.execute (consumer loop), worker_task / on_error,
schemathesis.engine.phases.unit._executor.run_test, cached_test_func; schemathesis.engine.core.ExecutionPlan.execute,
Phase.should_execute; schemathesis.engine.control.ExecutionControl; schemathesis.engine.context.EngineContext (stop / limit / outcome cache);
schemathesis.cli.commands.run.context.ExecutionContext.on_event, Statistic.on_scenario_finished.
Symbolic: the content of the worker->consumer queue (within the grammar workers can emit), where the queue runs empty, worker
liveness at those moments, the read at which the stop flag becomes visible, max_failures, fault class per pipeline stage.
Threads are NOT executed: the worker pool is replaced by a scripted queue (one schedule per script), stated as outside the claim.
VF_PROP selects which property's postconditions are asserted.
"""
from vf.h import *
from vf import det
from vf.util import pick, stable_hash

import queue
import threading
import types
import unittest

import hypothesis.errors

import schemathesis
from schemathesis.cli.commands.run.context import ExecutionContext
from schemathesis.core.errors import InvalidSchema
from schemathesis.core.failures import Failure, FailureGroup
from schemathesis.core.result import Err, Ok
from schemathesis.engine import Status, events
from schemathesis.engine import core as engine_core
from schemathesis.engine.config import EngineConfig, ExecutionConfig
from schemathesis.engine.context import EngineContext
from schemathesis.engine.control import ExecutionControl
from schemathesis.engine.errors import UnexpectedError
from schemathesis.engine.phases import Phase, PhaseName, PhaseSkipReason
from schemathesis.engine.phases import unit
from schemathesis.engine.phases.unit import _executor
from schemathesis.engine.recorder import ScenarioRecorder
from schemathesis.generation.hypothesis import builder

det.pin(events, _executor, unit, engine_core)
import schemathesis.engine.context as _ctxmod  # noqa: E402

det.pin(_ctxmod)
_ctxmod.hash = stable_hash  # EngineContext.cache_outcome keys by hash(case): evaluated outside tracing (CrossHair makes hash() a fresh symbolic int)

_OK = {"responses": {"200": {"description": "OK"}}}
SCHEMA = schemathesis.openapi.from_dict({"openapi": "3.0.2", "info": {"title": "t", "version": "1"}, "paths": {"/a": {"get": dict(_OK)}, "/b": {"get": dict(_OK)}}})
OPS = [SCHEMA["/a"]["GET"], SCHEMA["/b"]["GET"]]
STATUSES = [Status.SUCCESS, Status.FAILURE, Status.ERROR, Status.SKIP, Status.INTERRUPTED]
RANK = {Status.SUCCESS: 0, Status.SKIP: 0, Status.FAILURE: 1, Status.ERROR: 2, Status.INTERRUPTED: 3}
EMPTY = object()
CTRL_C = object()


class FlagEvent:
    """threading.Event whose is_set() becomes True at the `flip`-th read (Ctrl-C / EventStream.stop() arriving at any moment) and stays True."""

    def __init__(self, flip: int):
        self.flip, self.reads, self.value = flip, 0, False

    def is_set(self):
        if not self.value and self.flip >= 0 and self.reads >= self.flip:
            self.value = True
        self.reads += 1
        return self.value

    def set(self):
        self.value = True


def make_engine(flip: int, max_failures, **execution):
    config = EngineConfig(execution=ExecutionConfig(max_failures=max_failures, hypothesis_settings=None, **execution))
    return EngineContext(schema=SCHEMA, stop_event=FlagEvent(flip), config=config)


class Worker:
    def __init__(self, pool, idx):
        self.pool, self.idx = pool, idx

    def is_alive(self):
        return self.pool.alive(self.idx)


class ScriptedPool:
    """Stands in for WorkerPool: `events_queue.get` replays a script of (worker, event) / EMPTY entries."""

    current = None

    def __init__(self, **kwargs):
        script, linger = ScriptedPool.current
        self.script, self.linger, self.pos = script, linger, 0
        self.n_workers = 1 + max([w for w, _ in script if w is not None], default=0)
        self.workers = [Worker(self, i) for i in range(self.n_workers)]
        self.events_queue = self
        self.suite_id = kwargs["suite_id"]

    def __enter__(self):
        return self

    def __exit__(self, *a):
        return None

    def get(self, timeout=None):
        while self.pos < len(self.script):
            worker, item = self.script[self.pos]
            self.pos += 1
            if item is EMPTY:
                raise queue.Empty
            if item is CTRL_C:
                raise KeyboardInterrupt  # SIGINT delivered to the consumer thread while it waits on the queue
            return item
        raise queue.Empty

    def alive(self, idx):
        # a worker that still has something to emit is necessarily alive; one that is done may linger (thread not yet joined)
        for worker, item in self.script[self.pos:]:
            if worker == idx and item is not EMPTY and item is not CTRL_C:
                return True
        if self.pos >= len(self.script):
            return False
        return self.linger


class NoProducer:
    def __init__(self, engine):
        pass


unit.WorkerPool = ScriptedPool
unit.TaskProducer = NoProducer
PHASE_NAME = PhaseName.FUZZING


def scenario_events(k: int, status: Status, with_error: bool):
    label = "GET /%s" % "ab"[k]
    started = events.ScenarioStarted(label=label, phase=PHASE_NAME, suite_id=None)
    out = [started]
    if with_error:
        out.append(events.NonFatalError(error=ValueError("boom"), phase=PHASE_NAME, label=label, related_to_operation=True))
    out.append(events.ScenarioFinished(id=started.id, suite_id=None, phase=PHASE_NAME, label=label, status=status,
                                       recorder=ScenarioRecorder(label=label), elapsed_time=0.0, skip_reason=None, is_final=False))
    if status == Status.INTERRUPTED:
        out.append(events.Interrupted(phase=PHASE_NAME))
    return out


S1 = STATUSES[param(0) // 5 % 5]
S2 = STATUSES[param(0) % 5]


def _consume(nf1, nf2, bare_error, empty_first, empty_between, empty_inside, linger, flip, maxf, same_worker, ctrl_c_at=-1) -> bool:
    det.reset()
    w2 = 0 if same_worker else 1
    script = []
    if empty_first:
        script.append((None, EMPTY))
    ev1 = scenario_events(0, S1, nf1)
    ev2 = scenario_events(1, S2, nf2)
    script += [(0, e) for e in ev1]
    if bare_error:
        script.append((0, events.NonFatalError(error=RuntimeError("loader"), phase=PHASE_NAME, label="-", related_to_operation=False)))
    if empty_between:
        script.append((None, EMPTY))
    script.append((w2, ev2[0]))
    if empty_inside:
        script.append((None, EMPTY))
    script += [(w2, e) for e in ev2[1:]]
    if ctrl_c_at >= 0:
        script.insert(min(ctrl_c_at, len(script)), (None, CTRL_C))
    scripted = [e for _, e in script if e is not EMPTY and e is not CTRL_C]
    ScriptedPool.current = (script, linger)
    engine = make_engine(flip, maxf or None)
    phase = Phase(name=PHASE_NAME, is_supported=True, is_enabled=True)
    out = list(unit.execute(engine, phase))
    if ctrl_c_at >= 0 and flip < 0:
        # Ctrl-C in the consumer: the stop request must reach the workers (flag set), the phase ends INTERRUPTED with an Interrupted event
        reached = ctrl_c_at <= len(script) and not (maxf and engine.has_reached_the_failure_limit)
        if reached and not any(isinstance(e, events.Interrupted) for e in scripted[: min(ctrl_c_at, len(scripted))]):
            nothing_ran = len(out) == 4  # Ctrl-C before the first event: the phase reports SKIP (nothing was tested)
            if not engine.control.stop_event.value or not isinstance(out[-3], events.Interrupted):
                return False
            if out[-1].status != Status.INTERRUPTED and not (nothing_ran and out[-1].status == Status.SKIP):
                return False
    return check_unit_output(out, scripted, engine, phase, flip, maxf or None)


def unit_consumer(nf1: bool, bare_error: bool, empty_between: bool, empty_inside: bool, linger: bool, maxf: int, same_worker: bool) -> bool:
    """
    pre: 0 <= maxf <= 2
    post: _
    """
    # no stop request: everything the workers emit must come out, whatever the queue timing and worker liveness
    return _consume(nf1, False, bare_error, False, empty_between, empty_inside, linger, -1, maxf, same_worker)


def unit_consumer_stop(flip: int, nf2: bool, empty_first: bool, empty_between: bool, maxf: int, same_worker: bool) -> bool:
    """
    pre: 0 <= flip <= FLIPMAX and 0 <= maxf <= 1
    post: _
    """
    # the stop request (Ctrl-C, EventStream.stop()) becomes visible at an arbitrary read of the flag
    return _consume(False, nf2, False, empty_first, empty_between, False, True, flip, maxf, same_worker)


def unit_consumer_ctrl_c(ctrl_c_at: int, nf1: bool, empty_between: bool, same_worker: bool) -> bool:
    """
    pre: 0 <= ctrl_c_at <= 7
    post: _
    """
    # KeyboardInterrupt raised inside events_queue.get at an arbitrary position of the stream
    return _consume(nf1, False, False, False, empty_between, False, True, -1, 0, same_worker, ctrl_c_at)


FLIPMAX = tier(18, 24)


def _index(items, item) -> int:
    for i, x in enumerate(items):
        if x is item:
            return i
    return -1


def check_unit_output(out, scripted, engine, phase, flip, maxf) -> bool:
    # ---- structure (C11): SuiteStarted first; SuiteFinished, PhaseFinished last; each exactly once
    if len(out) < 3 or not isinstance(out[0], events.SuiteStarted):
        return False
    if not isinstance(out[-2], events.SuiteFinished) or not isinstance(out[-1], events.PhaseFinished):
        return False
    if out[-2].id != out[0].id or out[-1].phase is not phase or out[-2].status != out[-1].status:
        return False
    middle = out[1:-2]
    if any(isinstance(e, (events.SuiteStarted, events.SuiteFinished, events.PhaseFinished, events.PhaseStarted)) for e in middle):
        return False
    # ---- forwarded events are a prefix of what the workers emitted, in order, possibly followed by ONE generated Interrupted
    generated = [e for e in middle if not any(e is s for s in scripted)]
    if len(generated) > 1 or (generated and (not isinstance(generated[0], events.Interrupted) or middle[-1] is not generated[0])):
        return False
    forwarded = [e for e in middle if any(e is s for s in scripted)]
    if len(forwarded) > len(scripted) or any(a is not b for a, b in zip(forwarded, scripted)):
        return False
    status = out[-1].status
    finished = [e for e in forwarded if isinstance(e, events.ScenarioFinished)]
    errors = [e for e in forwarded if isinstance(e, events.NonFatalError)]
    failed = [e for e in finished if e.status in (Status.FAILURE, Status.ERROR)]
    # the run counts as interrupted as soon as the stop request became visible to the engine (flag set), however the loop noticed it
    interrupted = bool(generated) or any(isinstance(e, events.Interrupted) for e in forwarded) or status == Status.INTERRUPTED or engine.control.stop_event.value
    # a closing event is never seen without its opening one
    for e in finished:
        if not any(isinstance(s, events.ScenarioStarted) and s.id == e.id for s in forwarded[: _index(forwarded, e)]):
            return False
    if PROP in ("C11", ""):
        # statuses are consistent: the phase is at least as bad as its worst scenario
        worst = max([RANK[e.status] for e in finished] + [2 for _ in errors] + [0])
        if RANK[status] < worst:
            return False
        if status == Status.SKIP and (finished and any(e.status != Status.SKIP for e in finished)):
            return False
        # only when the run is interrupted may an announced scenario remain unclosed
        if not interrupted and not engine.has_reached_the_failure_limit:
            for s in forwarded:
                if isinstance(s, events.ScenarioStarted) and not any(e.id == s.id for e in finished):
                    return False
    if PROP in ("C05", ""):
        # nothing the workers reported is lost unless the run was interrupted or the failure limit cut it short
        if not interrupted and not engine.has_reached_the_failure_limit and len(forwarded) != len(scripted):
            return False
        ctx = ExecutionContext()
        for e in out:
            ctx.on_event(e)
        bad = bool(failed) or bool(errors)
        if not interrupted and (ctx.exit_code != 0) != bad:
            return False
        if bad and ctx.exit_code == 0 and status in (Status.FAILURE, Status.ERROR):
            return False
    if PROP in ("C12", ""):
        # no more than max-failures failed/errored scenarios are reported
        if maxf is not None and len(failed) > maxf:
            return False
        # once the limit is reached (or a worker reported an interrupt) nothing further is forwarded
        for idx, e in enumerate(forwarded):
            if isinstance(e, events.Interrupted) and idx != len(forwarded) - 1:
                return False
        if maxf is not None and len(failed) == maxf and forwarded and forwarded[-1] is not failed[-1]:
            return False
        if maxf is not None and len(failed) == maxf and not engine.has_reached_the_failure_limit:
            return False
    return True


# ---------------------------------------------------------------------------------------------------------------
# ExecutionPlan


def plan(st1: int, st2: int, st3: int, fail1: int, fail2: int) -> bool:
    """
    pre: 0 <= st1 <= 3 and 0 <= st2 <= 3 and 0 <= st3 <= 3 and 0 <= fail1 <= 2 and 0 <= fail2 <= 2
    post: _
    """
    det.reset()
    # enumerated by the driver: the phase inside which the consumer is interrupted (-1: none), max_failures, which phases are enabled
    stop_in = param(0) % 4 - 1
    maxf = param(0) // 4 % 3
    en1, en2, en3 = bool(param(0) // 12 % 2), bool(param(0) // 24 % 2), bool(param(0) // 48 % 2)
    flip = -1
    names = [PhaseName.EXAMPLES, PhaseName.COVERAGE, PhaseName.FUZZING]
    enabled = [en1, en2, en3]
    phases_ = [Phase(name=n, is_supported=True, is_enabled=e, skip_reason=None if e else PhaseSkipReason.DISABLED) for n, e in zip(names, enabled)]
    statuses = [pick(STATUSES[:4], s) for s in (st1, st2, st3)]
    fails = [fail1, fail2, 0]
    executed = []

    def fake_execute(engine, phase):
        k = names.index(phase.name)
        executed.append(k)
        for _ in range(fails[k]):
            engine.control.count_failure()
        status = statuses[k]
        if stop_in == k:
            engine.stop()  # the consumer was interrupted inside this phase
            yield events.Interrupted(phase=phase.name)
            status = Status.INTERRUPTED
        yield events.PhaseFinished(phase=phase, status=status, payload=None)

    saved = engine_core.phases.execute
    engine_core.phases.execute = fake_execute
    try:
        engine = make_engine(flip, maxf or None)
        out = list(engine_core.ExecutionPlan(phases_).execute(engine))
    finally:
        engine_core.phases.execute = saved
    # one start event first, exactly one finish event last, nothing after it
    if not out or not isinstance(out[0], events.EngineStarted) or not isinstance(out[-1], events.EngineFinished):
        return False
    if sum(isinstance(e, events.EngineStarted) for e in out) != 1 or sum(isinstance(e, events.EngineFinished) for e in out) != 1:
        return False
    body = out[1:-1]
    interrupted = engine.is_interrupted or any(isinstance(e, events.Interrupted) for e in body)
    # each phase is opened and closed exactly once in the fixed order; a closing event never without its opening one
    seq = [(type(e).__name__, e.phase) for e in body if isinstance(e, (events.PhaseStarted, events.PhaseFinished))]
    pos = 0
    opened = []
    for kind, ph in seq:
        if kind == "PhaseStarted":
            if opened and opened[-1][1] is None:
                return False  # previous phase not closed
            idx = next((i for i, p in enumerate(phases_) if p is ph), -1)
            if idx != len(opened):
                return False  # wrong order / repeated
            opened.append([idx, None])
        else:
            if not opened or opened[-1][1] is not None or phases_[opened[-1][0]] is not ph:
                return False
            opened[-1][1] = True
    if opened and opened[-1][1] is None:
        return False  # phases are closed even when interrupted
    if not interrupted and len(opened) != 3:
        return False  # without an interrupt every phase is reported
    finishes = [e for e in body if isinstance(e, events.PhaseFinished)]
    if PROP in ("C12", ""):
        # after the failure limit every later phase is reported as skipped because the limit was reached
        limit_at = None
        total = 0
        for k in range(3):
            if k in executed:
                total += fails[k]
                if maxf and total >= maxf and limit_at is None:
                    limit_at = k
        if limit_at is not None and not interrupted:
            for k in range(limit_at + 1, 3):
                f = finishes[k]
                if f.status != Status.SKIP or f.phase.skip_reason != PhaseSkipReason.FAILURE_LIMIT_REACHED or k in executed:
                    return False
        # after a stop request no new phase is started
        if stop_in >= 0 and stop_in in executed and any(k > stop_in for k in executed):
            return False
    if PROP in ("C05", ""):
        ctx = ExecutionContext()
        for e in out:
            ctx.on_event(e)
        bad = any(f.phase.is_enabled and f.status in (Status.FAILURE, Status.ERROR) for f in finishes)
        if (ctx.exit_code != 0) != bad:
            return False
        # a disabled phase is never executed, an enabled one is executed or reported as skipped
        for k in range(3):
            if not enabled[k] and k in executed:
                return False
    return True


# ---------------------------------------------------------------------------------------------------------------
# worker_task

CREATE_FAULTS = [None, InvalidSchema("bad"), hypothesis.errors.InvalidArgument("bad"), TypeError("unexpected keyword"), ValueError("v"), KeyError("k")]


FAULT1 = param(0) % 6  # exception raised by create_test for the first operation: enumerated by the driver


class ListProducer:
    def __init__(self, items):
        self.items, self.taken = list(items), 0

    def next_operation(self):
        if self.taken < len(self.items):
            self.taken += 1
            return self.items[self.taken - 1]
        return None


def worker(kind1: int, kind2: int, fault2: int, run1: int, run2: int, flip: int) -> bool:
    """
    pre: 0 <= kind1 <= 2 and 0 <= kind2 <= 2 and 0 <= fault2 < 6 and 0 <= run1 <= 2 and 0 <= run2 <= 2 and -1 <= flip <= 6
    post: _
    """
    det.reset()
    fault1 = FAULT1
    kinds, faults, runs = [kind1, kind2], [fault1, fault2], [run1, run2]
    results = []
    for k, kind in enumerate(kinds):
        if kind == 0:
            results.append(Ok(OPS[k]))
        elif kind == 1:
            results.append(Err(InvalidSchema("broken", path="/x%d" % k, method="get")))
        else:
            results.append(Err(InvalidSchema("unreadable", path=None, method=None)))
    producer = ListProducer(results)
    created, ran = [], []

    def fake_create_test(*, operation, test_func, config):
        k = OPS.index(operation)
        created.append(k)
        fault = pick(CREATE_FAULTS, faults[k])
        if fault is not None:
            raise fault
        return ("test", k)

    def fake_run_test(*, operation, test_function, ctx, phase, suite_id):
        k = OPS.index(operation)
        ran.append(k)
        if runs[k] == 2:
            raise KeyboardInterrupt
        for e in scenario_events(k, Status.FAILURE if runs[k] == 1 else Status.SUCCESS, False):
            yield e

    q = queue.Queue()
    saved = builder.create_test, _executor.run_test
    builder.create_test, _executor.run_test = fake_create_test, fake_run_test
    engine = make_engine(flip, None)
    escaped = None
    try:
        unit.worker_task(events_queue=q, producer=producer, ctx=engine, mode=builder.HypothesisTestMode.FUZZING, phase=PHASE_NAME, suite_id=None)
    except Exception as exc:
        escaped = exc
    finally:
        builder.create_test, _executor.run_test = saved
    emitted = []
    while not q.empty():
        emitted.append(q.get())
    # (C05) nothing but KeyboardInterrupt may leave a worker: in a thread it would vanish and the operation would be reported nowhere
    if escaped is not None:
        if PROP in ("C05", ""):
            return False
        return True  # C11/C12 say nothing about a worker that died; C05 reports it
    # every operation taken from the producer is accounted for: scenario events or an error event
    interrupted = any(isinstance(e, events.Interrupted) for e in emitted)
    for k in range(producer.taken):
        label = "GET /%s" % "ab"[k] if kinds[k] == 0 else ("GET /x%d" % k if kinds[k] == 1 else "-")
        mine = [e for e in emitted if getattr(e, "label", None) == label]
        if not mine and not interrupted:
            return False
        if kinds[k] == 0 and faults[k] == 0 and runs[k] != 2 and not interrupted:
            if not any(isinstance(e, events.ScenarioFinished) for e in mine):
                return False
        if kinds[k] == 0 and faults[k] != 0 and not interrupted:
            if not any(isinstance(e, events.NonFatalError) for e in mine) or not any(isinstance(e, events.ScenarioFinished) and e.status == Status.ERROR for e in mine):
                return False
    if PROP in ("C11", ""):
        # queue content is in the grammar: Started (NonFatalError)* Finished [Interrupted] | bare NonFatalError | Interrupted
        open_id = None
        for e in emitted:
            if isinstance(e, events.ScenarioStarted):
                if open_id is not None:
                    return False
                open_id = e.id
            elif isinstance(e, events.ScenarioFinished):
                if open_id != e.id:
                    return False
                open_id = None
            elif isinstance(e, events.NonFatalError):
                if e.related_to_operation != (open_id is not None):
                    return False
        if open_id is not None and not interrupted:
            return False
    if PROP in ("C12", ""):
        # no new operation is taken once the stop flag has been observed set
        if flip == 0 and producer.taken != 0:
            return False
        if interrupted and emitted and not isinstance(emitted[-1], events.Interrupted):
            return False
    return True


# ---------------------------------------------------------------------------------------------------------------
# run_test exception ladder


def _flaky_deadline():
    exc = hypothesis.errors.Flaky("flaky")
    exc.__cause__ = hypothesis.errors.DeadlineExceeded(__import__("datetime").timedelta(seconds=1), __import__("datetime").timedelta(seconds=1))
    return exc


LADDER = [
    ("ok", None, Status.SUCCESS, 0),
    ("SkipTest", lambda: unittest.case.SkipTest("no examples"), Status.SKIP, 0),
    ("Failure", lambda: Failure(operation="op", title="t", message="m"), Status.FAILURE, 0),
    ("FailureGroup", lambda: FailureGroup([Failure(operation="op", title="t", message="m")]), Status.FAILURE, 0),
    ("UnexpectedError", lambda: UnexpectedError(), Status.ERROR, 0),
    ("Flaky(deadline)", _flaky_deadline, Status.ERROR, 1),
    ("Flaky", lambda: hypothesis.errors.Flaky("f"), Status.FAILURE, 0),
    ("Unsatisfiable", lambda: hypothesis.errors.Unsatisfiable("u"), Status.ERROR, 1),
    ("KeyboardInterrupt", lambda: KeyboardInterrupt(), Status.INTERRUPTED, 0),
    ("AssertionError", lambda: AssertionError("internal"), Status.ERROR, 1),
    ("InvalidArgument", lambda: hypothesis.errors.InvalidArgument("arg"), Status.ERROR, 1),
    ("ValueError", lambda: ValueError("v"), Status.ERROR, 1),
    ("TypeError(pattern)", lambda: TypeError("first argument must be string or compiled pattern"), Status.ERROR, 1),
    ("RuntimeError", lambda: RuntimeError("r"), Status.ERROR, 1),
]


def run_test_ladder(which: int, n_errors: int, continue_on_failure: bool, recorded_failure: bool) -> bool:
    """
    pre: 0 <= which < len(LADDER) and 0 <= n_errors <= 2
    pre: n_errors == 0 or which in (4, 6)
    post: _
    """
    det.reset()
    name, make, want_status, want_errors = pick(LADDER, which)

    def test_function(*, ctx, errors, recorder):
        for i in range(n_errors):
            errors.append([ConnectionError("connection refused"), TimeoutError("read timed out")][i])
        if recorded_failure:
            recorder.record_check_failure(name="c", case_id="x", code_sample="curl", failure=Failure(operation="op", title="t", message="m"))
        if make is not None:
            raise make()

    test_function.hypothesis = types.SimpleNamespace(inner_test=types.SimpleNamespace())
    engine = make_engine(-1, None, continue_on_failure=continue_on_failure)
    try:
        out = list(_executor.run_test(operation=OPS[0], test_function=test_function, ctx=engine, phase=PHASE_NAME, suite_id=None))
    except Exception:
        return False  # run_test must contain every failure of the test function
    if not out or not isinstance(out[0], events.ScenarioStarted):
        return False
    finished = [e for e in out if isinstance(e, events.ScenarioFinished)]
    if len(finished) != 1 or finished[0].id != out[0].id:
        return False
    status = finished[0].status
    errs = [e for e in out if isinstance(e, events.NonFatalError)]
    if name == "KeyboardInterrupt":
        return status == Status.INTERRUPTED and isinstance(out[-1], events.Interrupted) and out[-2] is finished[0]
    if out[-1] is not finished[0]:
        return False
    expected = want_status
    if name == "Flaky" and n_errors:
        expected = Status.ERROR
    if name == "ok" and continue_on_failure and recorded_failure:
        expected = Status.FAILURE
    if status != expected:
        return False
    # an error is never lost: every collected error and every non-failure exception produces an error event
    # (errors collected by the test body are appended right before it raises UnexpectedError, or surface through a Flaky replay)
    if len(errs) != want_errors + n_errors:
        return False
    return not errs or status == Status.ERROR


# ---------------------------------------------------------------------------------------------------------------
# limits: failure counter (one inductive step), unique inputs


def control_step(max_failures: Optional[int], counter: int, steps: int) -> bool:
    """
    pre: max_failures is None or max_failures >= 1
    pre: counter >= 0 and 0 <= steps <= 3
    pre: max_failures is None or counter < max_failures
    post: _
    """
    # from ANY reachable state (limit not yet reached): the limit flag is raised exactly when the counter reaches max_failures
    control = ExecutionControl(stop_event=FlagEvent(-1), max_failures=max_failures, _failures_counter=counter, has_reached_the_failure_limit=False)
    for k in range(steps):
        control.count_failure()
        expected = max_failures is not None and counter + k + 1 >= max_failures
        if control.has_reached_the_failure_limit != expected or control.is_stopped != expected:
            return False
    control.stop()
    return control.is_stopped and control.is_interrupted


class HashCase:
    def __init__(self, h):
        self.h = h

    def __hash__(self):
        return self.h


def unique_inputs(h1: int, h2: int, h3: int, h4: int, o1: int, o2: int, o3: int, o4: int, unique: bool) -> bool:
    """
    pre: all(0 <= h <= 2 for h in (h1, h2, h3, h4)) and all(0 <= o <= 2 for o in (o1, o2, o3, o4))
    pre: unique == bool(param(0) // 3 % 2) and h1 == param(0) % 3
    post: _
    """
    engine = make_engine(-1, None, unique_inputs=unique)
    sent = []
    hashes = [h1, h2, h3, h4][:NU]
    outcomes = [o1, o2, o3, o4][:NU]

    def inner(*, ctx, case, recorder):
        sent.append(case.h)
        o = OUTCOME_OF.get(case.h)
        if o == 1:
            raise Failure(operation="op", title="t", message="m")
        if o == 2:
            raise ConnectionError("net")

    OUTCOME_OF: dict = {}
    wrapped = _executor.cached_test_func(inner)
    results = []
    for h, o in zip(hashes, outcomes):
        OUTCOME_OF.setdefault(h, o)  # the API is deterministic: the first outcome of a request is its outcome
        errors = []
        try:
            wrapped(ctx=engine, case=HashCase(pick([0, 1, 2], h)), errors=errors, recorder=None)
            results.append(0)
        except Failure:
            results.append(1)
        except UnexpectedError:
            results.append(2)
    if unique:
        # the same request is never sent twice, and a cached failure/error is reported again, not swallowed
        if len(sent) != len(set(hashes)) or sorted(set(sent)) != sorted(set(hashes)):
            return False
    elif sent != [pick([0, 1, 2], h) for h in hashes]:
        return False
    return results == [OUTCOME_OF[h] for h in hashes]


NU = tier(3, 4)

_U = ["schemathesis.engine.phases.unit.execute", "schemathesis.engine.control.ExecutionControl", "schemathesis.engine.context.EngineContext.has_to_stop/is_interrupted/stop",
      "schemathesis.cli.commands.run.context.ExecutionContext.on_event", "schemathesis.cli.commands.run.context.Statistic.on_scenario_finished"]
_STUBS = ["WorkerPool/TaskProducer replaced by a scripted queue (no threads: one schedule per script)", "threading.Event replaced by a flag that flips at a symbolic read",
          "clock and uuid4 pinned inside the engine modules"]
_PN = ["scenario 1 %s / scenario 2 %s" % (STATUSES[k // 5].name, STATUSES[k % 5].name) for k in range(25)]
OBLIGATIONS = [
    Ob(fn="unit_consumer", props=("C05", "C11", "C12"),
       clause="C11: suite/phase opened and closed exactly once, forwarded events in order, statuses consistent; C05: nothing a worker reported is lost and the exit code reflects it; C12: at most max-failures failures forwarded, nothing after a stop",
       timeout={"quick": 120, "thorough": 240}, params=range(25), param_names=_PN, functions=_U,
       symbolic="NonFatalError in scenario 1, a loader error, where the queue runs empty (2 places), whether a finished worker still looks alive, one or two workers, max_failures",
       bounds="2 scenarios (statuses enumerated: 25 pairs), <= 8 queue items, max_failures in {None,1,2}; no stop request",
       stubs=_STUBS, outside=["real thread interleavings and queue timing", "more than 2 scenarios / workers"]),
    Ob(fn="unit_consumer_stop", props=("C05", "C11", "C12"),
       clause="same postconditions when a stop request becomes visible at an arbitrary read of the stop flag",
       timeout={"quick": 120, "thorough": 240}, params=range(25), param_names=_PN, functions=_U,
       symbolic="the read of the stop flag at which it flips, NonFatalError in scenario 2, empty polls (2 places), one or two workers, max_failures",
       bounds={"quick": "flip at read 0..18 (the loop reads the flag up to 3 times per event)", "thorough": "0..24"}, stubs=_STUBS,
       outside=["real thread interleavings and queue timing"]),
    Ob(fn="unit_consumer_ctrl_c", props=("C11", "C12"),
       clause="C12: after Ctrl-C reaches the consumer the stop request is visible to the workers (no new scenario is started); C11: the phase is closed as INTERRUPTED",
       timeout={"quick": 120, "thorough": 240}, params=range(25), param_names=_PN, functions=_U,
       symbolic="position in the stream at which queue.get raises KeyboardInterrupt, NonFatalError in scenario 1, an empty poll, one or two workers", bounds="Ctrl-C at any of the first 8 queue reads",
       stubs=_STUBS, outside=["real signal delivery"]),
    Ob(fn="plan", props=("C05", "C11", "C12"),
       clause="C11: EngineStarted first, one EngineFinished last, phases opened/closed once in order; C12: after the limit later phases are SKIP(failure limit reached), no phase starts after a stop; C05: exit code non-zero iff an enabled phase failed/errored",
       timeout={"quick": 150, "thorough": 240}, params=range(96), functions=["schemathesis.engine.core.ExecutionPlan.execute", "schemathesis.engine.phases.Phase.should_execute"] + _U[1:4],
       symbolic="final status of each phase (4), failures counted inside the first two phases (enabled set, max_failures and the interrupted phase are enumerated: 96 shapes)",
       bounds="3 phases; <= 2 failures per phase; max_failures in {None,1,2}", stubs=["phases.execute replaced by a stub yielding PhaseFinished(symbolic status)"] + _STUBS[1:]),
    Ob(fn="worker", props=("C05", "C11", "C12"),
       clause="C05: no exception other than KeyboardInterrupt leaves a worker, every operation taken yields scenario events or an error event; C11: emitted events follow the grammar; C12: nothing is taken after the stop flag is seen",
       timeout={"quick": 200, "thorough": 600}, params=range(6), param_names=["create_test fault for op 1: %r" % (f,) for f in CREATE_FAULTS],
       functions=["schemathesis.engine.phases.unit.worker_task", "schemathesis.engine.phases.unit.get_strategy_kwargs"],
       symbolic="kind of each producer result (Ok / Err with path / Err without), exception raised by create_test (6 classes), behaviour of run_test (ok / failure / KeyboardInterrupt), stop-flag flip",
       bounds="2 producer results", stubs=["create_test and run_test replaced by stubs that raise/yield per symbolic choice"] + _STUBS[1:]),
    Ob(fn="run_test_ladder", props=("C05", "C11"),
       clause="whatever the test function raises: Started ... exactly one Finished; failures -> FAILURE, everything else -> ERROR plus an error event, skips -> SKIP, Ctrl-C -> INTERRUPTED + Interrupted; collected errors are all reported",
       timeout={"quick": 200, "thorough": 400}, functions=["schemathesis.engine.phases.unit._executor.run_test", "schemathesis.engine.errors.deduplicate_errors"],
       symbolic="exception class raised by the test function (14), number of collected errors, continue_on_failure, a recorded failing check", bounds="14 exception classes; <= 2 collected errors",
       stubs=["test function replaced by a stub raising the chosen exception"] + _STUBS[2:]),
    Ob(fn="control_step", props=("C12",), clause="the failure limit is raised exactly when the count reaches max-failures (inductive step from an arbitrary state)",
       timeout=120, functions=["schemathesis.engine.control.ExecutionControl.count_failure"], symbolic="max_failures and the current counter: unbounded ints; 0-3 further failures",
       bounds="any counter value below the limit; up to 3 steps"),
    Ob(fn="unique_inputs", props=("C12",), clause="with unique-inputs the same request is never sent twice and its cached outcome (success, failure, error) is reported again",
       timeout={"quick": 200, "thorough": 600}, params=range(6), functions=["schemathesis.engine.phases.unit._executor.cached_test_func", "schemathesis.engine.context.EngineContext.cache_outcome/get_cached_outcome"],
       symbolic="sequence of request hashes (3 values) and the API's outcome for each (ok / check failure / network error)", bounds={"quick": "3 requests", "thorough": "4 requests"},
       stubs=["Case replaced by an object with the given hash; the test body by a stub"]),
]
