"""C07.a/c - an operation is selected iff it matches some include filter (or there are none) and no exclude filter.

Real code executed symbolically: schemathesis.filters.FilterSet.include/exclude/_add_filter/match/clone, Filter.match, Matcher.for_value/
for_regex/for_function/match, by_value, by_value_list, by_regex, get_operation_attribute, is_deprecated, expression_to_filter_function,
parse_expression; schemathesis.cli.commands.run.filters.FilterArguments.into; BaseSchema.include/exclude (derived schemas).
The filter configuration is enumerated by the driver (one obligation each); the OPERATION is symbolic: path text, tags, operationId,
deprecated flag, method spelling.
"""
from vf.h import *
from vf.util import pick, stable_hash

import re
from types import SimpleNamespace

import schemathesis
from schemathesis import filters
from schemathesis.cli.commands.run.filters import FilterArguments
from schemathesis.filters import FilterSet

filters.hash = stable_hash  # Matcher._hash = hash(label): labels are concrete here

METHOD_SPELLINGS = ["GET", "get", "Get", "POST", "post", "DELETE", "pUt"]
NP = tier(3, 4)  # path length bound
NT = 2  # tag / operationId length bound

# concrete regexes used by the family, each with an independent reading
REGEXES = {
    "^/a": lambda s: s.startswith("/a"),
    "b\\Z": lambda s: s.endswith("b"),
    "a": lambda s: "a" in s,
    "^(GET|POST)$": lambda s: s in ("GET", "POST", "GET\n", "POST\n"),
    "^x": lambda s: s.startswith("x"),
}


def ref_filter(f: dict, op) -> bool:
    """Reference reading of one filter: every given criterion holds."""
    method = op.method.upper()
    label = "%s %s" % (method, op.path)
    for key, want in f.items():
        if key == "func":
            if want == "deprecated":
                ok = op.definition.raw.get("deprecated") is True
            elif want == "x-internal==true":
                ok = op.definition.resolved.get("x-internal") is True
            elif want == "x-internal!=true":
                ok = op.definition.resolved.get("x-internal") is not True
            else:
                raise AssertionError(want)
        elif key.endswith("_regex"):
            attr = key[: -len("_regex")]
            pred = REGEXES[want]
            if attr == "method":
                ok = pred(method) or (want == "^(GET|POST)$" and method in ("GET", "POST"))
            elif attr == "path":
                ok = pred(op.path)
            elif attr == "name":
                ok = pred(label)
            elif attr == "tag":
                ok = op.tags is not None and any(pred(t) for t in op.tags)
            else:
                opid = op.definition.raw.get("operationId")
                ok = opid is not None and pred(opid)
        else:
            values = want if isinstance(want, list) else [want]
            if key == "method":
                ok = any(method == v.upper() for v in values)
            elif key == "path":
                ok = any(op.path == v for v in values)
            elif key == "name":
                ok = any(label == v for v in values)
            elif key == "tag":
                ok = op.tags is not None and any(t == v for t in op.tags for v in values)
            else:
                opid = op.definition.raw.get("operationId")
                ok = opid is not None and any(opid == v for v in values)
        if not ok:
            return False
    return True


_MISSING = object()


def ref_selected(includes, excludes, op) -> bool:
    if any(ref_filter(f, op) for f in excludes):
        return False
    if not includes:
        return True
    return any(ref_filter(f, op) for f in includes)


FUNCS = {
    "deprecated": filters.is_deprecated,
    "x-internal==true": filters.expression_to_filter_function("/x-internal == true"),
    "x-internal!=true": filters.expression_to_filter_function("/x-internal != true"),
}


def build(includes, excludes) -> FilterSet:
    fs = FilterSet()
    for f in includes:
        kw = dict(f)
        fn = kw.pop("func", None)
        fs.include(FUNCS[fn] if fn else None, **kw)
    for f in excludes:
        kw = dict(f)
        fn = kw.pop("func", None)
        fs.exclude(FUNCS[fn] if fn else None, **kw)
    return fs


def _single():
    return [
        {"path": "/a"}, {"path": ["/a", "/b"]}, {"method": "GET"}, {"method": "get"}, {"method": ["post", "DELETE"]}, {"name": "GET /a"},
        {"tag": "x"}, {"tag": ["x", "y"]}, {"operation_id": "op"}, {"path_regex": "^/a"}, {"path_regex": "b\\Z"}, {"method_regex": "^(GET|POST)$"},
        {"name_regex": "a"}, {"tag_regex": "^x"}, {"operation_id_regex": "a"}, {"func": "deprecated"}, {"func": "x-internal==true"},
        {"func": "x-internal!=true"}, {"method": "GET", "path": "/a"}, {"method": "POST", "path_regex": "^/a", "tag": "x"},
    ]


def family():
    singles = _single()
    configs = [([], [])]
    for f in singles:
        configs.append(([f], []))
        configs.append(([], [f]))
    pairs = [(0, 2), (2, 0), (9, 15), (15, 9), (6, 3), (8, 10), (18, 6), (19, 15), (11, 1), (16, 4), (17, 12), (13, 14), (5, 7)]
    for i, j in pairs:
        configs.append(([singles[i]], [singles[j]]))
    for i, j in [(0, 2), (6, 9), (3, 8), (18, 15)]:
        configs.append(([singles[i], singles[j]], []))
        configs.append(([], [singles[i], singles[j]]))
    for i, j, k in [(0, 2, 6), (9, 3, 15)]:
        configs.append(([singles[i], singles[j]], [singles[k]]))
        configs.append(([singles[k]], [singles[i], singles[j]]))
    return configs


CONFIGS = family()
CONFIG = CONFIGS[param(0) % len(CONFIGS)]


def make_op(method_idx: int, path: str, tags, opid, deprecated, internal):
    raw = {}
    if opid is not None:
        raw["operationId"] = opid
    if deprecated is not None:
        raw["deprecated"] = deprecated
    resolved = dict(raw)
    if internal is not None:
        resolved["x-internal"] = internal
    method = pick(METHOD_SPELLINGS, method_idx)
    return SimpleNamespace(method=method, path=path, tags=tags, label="%s %s" % (method.upper(), path), definition=SimpleNamespace(raw=raw, resolved=resolved))


def _uses(config):
    used = set()
    for f in config[0] + config[1]:
        for key, want in f.items():
            if key == "func":
                used.add(want)
            else:
                used.add(key[: -len("_regex")] if key.endswith("_regex") else key)
    if "name" in used:
        used |= {"method", "path"}
    return used


USES = _uses(CONFIG)


def _valid_op(method_idx, path, ntags, tag1, tag2, has_opid, opid, deprecated, internal) -> bool:
    """Bounds; attributes the configuration never looks at are pinned to one concrete value (they cannot influence the verdict)."""
    if not (0 <= method_idx < len(METHOD_SPELLINGS) and len(path) <= NP and -1 <= ntags <= 2 and len(tag1) <= NT and len(tag2) <= NT and len(opid) <= NT):
        return False
    if "method" not in USES and method_idx != 0:
        return False
    if "path" not in USES and path != "/a":
        return False
    if "tag" not in USES and not (ntags == 0 and tag1 == "" and tag2 == ""):
        return False
    if "operation_id" not in USES and not (has_opid is False and opid == ""):
        return False
    if "deprecated" not in USES and deprecated is not None:
        return False
    if "x-internal==true" not in USES and "x-internal!=true" not in USES and internal is not None:
        return False
    return True


def match_config(method_idx: int, path: str, ntags: int, tag1: str, tag2: str, has_opid: bool, opid: str,
                 deprecated: Optional[bool], internal: Optional[bool]) -> bool:
    """
    pre: _valid_op(method_idx, path, ntags, tag1, tag2, has_opid, opid, deprecated, internal)
    post: _
    """
    includes, excludes = CONFIG
    tags = None if ntags < 0 else [tag1, tag2][:ntags]
    op = make_op(method_idx, path, tags, opid if has_opid else None, deprecated, internal)
    fs = build(includes, excludes)
    got = fs.match(SimpleNamespace(operation=op))
    want = ref_selected(includes, excludes, op)
    if got != want:
        return False
    # apply_to agrees with match
    return (fs.apply_to([op]) == [op]) == want


# ---------------------------------------------------------------------------------------------------------------
# derived filter sets / schemas are independent of their parent (include/exclude return NEW schemas)

_OK = {"responses": {"200": {"description": "OK"}}}
RAW = {"openapi": "3.0.2", "info": {"title": "t", "version": "1"},
       "paths": {"/a": {"get": dict(_OK), "delete": dict(_OK)}, "/admin": {"get": dict(_OK)}, "/b": {"post": dict(_OK, tags=["x"])}}}
BASE = schemathesis.openapi.from_dict(RAW)
ALL_LABELS = ["GET /a", "DELETE /a", "GET /admin", "POST /b"]
STEPS = [("exclude", {"method": "DELETE"}), ("exclude", {"path": "/admin"}), ("include", {"method": "GET"}), ("include", {"path": "/b"}),
         ("exclude", {"tag": "x"}), ("include", {"path_regex": "^/a"})]


S1 = param(0) % 6  # first derivation step: enumerated by the driver


def _labels(schema):
    return sorted(r.ok().label for r in schema.get_all_operations())


def _ref_labels(steps):
    includes = [kw for kind, kw in steps if kind == "include"]
    excludes = [kw for kind, kw in steps if kind == "exclude"]
    out = []
    for path, item in RAW["paths"].items():
        for method, definition in item.items():
            op = SimpleNamespace(method=method, path=path, tags=definition.get("tags"), definition=SimpleNamespace(raw=definition, resolved=definition))
            if ref_selected(includes, excludes, op):
                out.append("%s %s" % (method.upper(), path))
    return sorted(out)


def derived_schemas(s2: int, s3: int, branch: int) -> bool:
    """
    pre: 0 <= s2 < 6 and 0 <= s3 < 6 and S1 != s2 and S1 != s3 and s2 != s3 and 0 <= branch <= 1
    post: _
    """
    s1 = S1
    step1, step2, step3 = pick(STEPS, s1), pick(STEPS, s2), pick(STEPS, s3)
    first = getattr(BASE, step1[0])(**step1[1])
    second = getattr(first, step2[0])(**step2[1])
    # a sibling derived from `first` (branch 0) or from `second` (branch 1)
    parent = first if branch == 0 else second
    third = getattr(parent, step3[0])(**step3[1])
    # `first` must be unaffected by whatever was derived from it afterwards; `third` follows from its own chain only
    if _labels(first) != _ref_labels([step1]):
        return False
    if _labels(third) != _ref_labels([step1, step3] if branch == 0 else [step1, step2, step3]):
        return False
    if branch == 0 and _labels(second) != _ref_labels([step1, step2]):
        return False
    # counts shown to the user agree with what is offered
    stat = third.statistic
    return stat.operations.selected == len(_labels(third)) and stat.operations.total == 4



# ---------------------------------------------------------------------------------------------------------------
# filters see the operation with its references resolved; link counts follow the selection

from schemathesis.filters import expression_to_filter_function


def _lk(op_id):
    return {"operationId": op_id}


RAW_REF = {"openapi": "3.0.2", "info": {"title": "t", "version": "1"},
           "components": {"parameters": {"Admin": {"name": "X-Admin-Token", "in": "header", "schema": {"type": "string"}}}},
           "paths": {"/a": {"get": {"operationId": "getA", "responses": {"200": {"description": "OK", "links": {"toAdmin": _lk("delAdmin"), "toB": _lk("postB")}}}}},
                     "/admin": {"delete": {"operationId": "delAdmin", "parameters": [{"$ref": "#/components/parameters/Admin"}],
                                           "responses": {"200": {"description": "OK", "links": {"toA": _lk("getA")}}}}},
                     "/b": {"post": {"operationId": "postB", "parameters": [{"name": "X-Admin-Token", "in": "header", "schema": {"type": "string"}}],
                                     "responses": {"200": {"description": "OK"}}}}}}
BASE_REF = schemathesis.openapi.from_dict(RAW_REF)
REF_LABELS = {"GET /a": ("getA", False), "DELETE /admin": ("delAdmin", True), "POST /b": ("postB", True)}  # label -> (operationId, first parameter is X-Admin-Token)
REF_LINKS = [("GET /a", "delAdmin"), ("GET /a", "postB"), ("DELETE /admin", "getA")]
_BY_NAME = expression_to_filter_function('/parameters/0/name == "X-Admin-Token"')
REF_STEPS = [("none", None), ("exclude", {"func": _BY_NAME}), ("include", {"func": _BY_NAME}), ("exclude", {"method": "DELETE"}), ("include", {"path": "/a"}),
             ("exclude", {"operation_id": "postB"}), ("include", {"method_regex": "(?i)get|delete"})]


def _ref_keep(label, kind, kw) -> bool:
    op_id, admin = REF_LABELS[label]
    method, path = label.split(" ")
    if "func" in kw:
        hit = admin
    elif "method" in kw:
        hit = method == kw["method"]
    elif "path" in kw:
        hit = path == kw["path"]
    elif "operation_id" in kw:
        hit = op_id == kw["operation_id"]
    else:
        hit = method in ("GET", "DELETE")
    return hit if kind == "include" else not hit


def resolved_filters(s1: int, s2: int) -> bool:
    """
    pre: 0 <= s1 < len(REF_STEPS) and 0 <= s2 < len(REF_STEPS) and (s1 != s2 or s1 == 0) and not (s1 in (1, 2) and s2 in (1, 2))
    post: _
    """
    schema, includes, excludes = BASE_REF, [], []
    for idx in (s1, s2):
        kind, kw = pick(REF_STEPS, idx)
        if kind == "none":
            continue
        schema = getattr(schema, kind)(*([kw["func"]] if "func" in kw else []), **({} if "func" in kw else kw))
        (includes if kind == "include" else excludes).append(kw)
    # selected = matches at least one include (or there are none) and no exclude
    want = [label for label in REF_LABELS if (not includes or any(_ref_keep(label, "include", kw) for kw in includes)) and all(_ref_keep(label, "exclude", kw) for kw in excludes)]
    offered = sorted(r.ok().label for r in schema.get_all_operations())
    if offered != sorted(want):
        return False  # a filter on a parameter name applies whether the parameter is written inline or through $ref
    stat = schema.statistic
    if stat.operations.total != 3 or stat.operations.selected != len(want):
        return False  # the counts shown agree with what is offered
    selected_ids = {REF_LABELS[label][0] for label in want}
    links = [1 for source, target in REF_LINKS if source in want and target in selected_ids]
    # a link is counted as selected only when both its source and its target operation are
    return stat.links.total == 3 and stat.links.selected == len(links)


def clone_independence(n_inc: int, n_exc: int, add_include: bool, k: int) -> bool:
    """
    pre: 0 <= n_inc <= 2 and 0 <= n_exc <= 2 and 0 <= k <= 2
    post: _
    """
    base = FilterSet()
    incs = [{"method": "GET"}, {"path": "/a"}][:n_inc]
    excs = [{"method": "DELETE"}, {"tag": "x"}][:n_exc]
    for f in incs:
        base.include(**f)
    for f in excs:
        base.exclude(**f)
    clone = base.clone()
    new = pick([{"path": "/admin"}, {"operation_id": "op"}, {"path_regex": "^/a"}], k)
    (clone.include if add_include else clone.exclude)(**new)
    op = SimpleNamespace(method="get", path="/admin", tags=None, definition=SimpleNamespace(raw={"operationId": "op"}, resolved={}))
    ctx = SimpleNamespace(operation=op)
    want_base = ref_selected(incs, excs, op)
    want_clone = ref_selected(incs + [new], excs, op) if add_include else ref_selected(incs, excs + [new], op)
    return base.match(ctx) == want_base and clone.match(ctx) == want_clone and len(base._includes) == n_inc and len(base._excludes) == n_exc


# ---------------------------------------------------------------------------------------------------------------
# CLI flags -> FilterSet

CLI_OPS = [
    SimpleNamespace(method="get", path="/a", tags=["x"], label="GET /a", definition=SimpleNamespace(raw={"operationId": "getA"}, resolved={"operationId": "getA"})),
    SimpleNamespace(method="delete", path="/a", tags=None, label="DELETE /a", definition=SimpleNamespace(raw={"deprecated": True}, resolved={"deprecated": True})),
    SimpleNamespace(method="get", path="/internal/b", tags=["y"], label="GET /internal/b", definition=SimpleNamespace(raw={"operationId": "getB"}, resolved={"operationId": "getB", "x-internal": True})),
    SimpleNamespace(method="post", path="/b", tags=["x", "y"], label="POST /b", definition=SimpleNamespace(raw={}, resolved={})),
]
CLI_REGEX = {"^/a": REGEXES["^/a"], "^/internal": lambda s: s.startswith("/internal"), "DELETE": lambda s: "DELETE" in s.upper(), "^get": lambda s: s.startswith("get"), "y": lambda s: "y" in s}
REGEXES.update(CLI_REGEX)


# every CLI option of the family: (FilterArguments field, value, include/exclude, reference filter)
CLI_OPTIONS = [
    ("include_path", ["/a"], "include", [{"path": "/a"}]),
    ("include_path", ["/a", "/b"], "include", [{"path": "/a"}, {"path": "/b"}]),
    ("include_method", ["GET"], "include", [{"method": "GET"}]),
    ("include_method", ["get", "POST"], "include", [{"method": "get"}, {"method": "POST"}]),
    ("include_tag", ["x"], "include", [{"tag": "x"}]),
    ("include_name", ["GET /a"], "include", [{"name": "GET /a"}]),
    ("include_operation_id", ["getB"], "include", [{"operation_id": "getB"}]),
    ("include_path_regex", "^/a", "include", [{"path_regex": "^/a"}]),
    ("include_by", "/x-internal == true", "include", [{"func": "x-internal==true"}]),
    ("exclude_path", ["/internal/b"], "exclude", [{"path": "/internal/b"}]),
    ("exclude_method", ["DELETE"], "exclude", [{"method": "DELETE"}]),
    ("exclude_tag", ["y"], "exclude", [{"tag": "y"}]),
    ("exclude_name", ["POST /b"], "exclude", [{"name": "POST /b"}]),
    ("exclude_operation_id", ["getA"], "exclude", [{"operation_id": "getA"}]),
    ("exclude_path_regex", "^/internal", "exclude", [{"path_regex": "^/internal"}]),
    ("exclude_method_regex", "DELETE", "exclude", [{"method_regex": "DELETE"}]),
    ("exclude_tag_regex", "y", "exclude", [{"tag_regex": "y"}]),
    ("exclude_operation_id_regex", "^get", "exclude", [{"operation_id_regex": "^get"}]),
    ("exclude_name_regex", "^/a", "exclude", [{"name_regex": "^/a"}]),
    ("exclude_by", "/x-internal == true", "exclude", [{"func": "x-internal==true"}]),
    ("exclude_deprecated", True, "exclude", [{"func": "deprecated"}]),
]
NCLI = len(CLI_OPTIONS)
_LIST_FIELDS = ("include_path", "include_method", "include_name", "include_tag", "include_operation_id",
                "exclude_path", "exclude_method", "exclude_name", "exclude_tag", "exclude_operation_id")


def _cli(options, op: int) -> bool:
    kwargs = {name: None for name in FilterArguments.__slots__}
    for name in _LIST_FIELDS:
        kwargs[name] = []
    kwargs["exclude_deprecated"] = False
    includes, excludes = [], []
    seen_fields = set()
    for idx in options:
        field, value, kind, ref = pick(CLI_OPTIONS, idx)
        if field in seen_fields:
            continue  # one setting per option
        seen_fields.add(field)
        kwargs[field] = value
        (includes if kind == "include" else excludes).extend(ref)
    fs = FilterArguments(**kwargs).into()
    operation = pick(CLI_OPS, op)
    return fs.match(SimpleNamespace(operation=operation)) == ref_selected(includes, excludes, operation)


def cli_into(j: int, op: int) -> bool:
    """
    pre: 0 <= j < NCLI and 0 <= op < 4
    post: _
    """
    return _cli([param(0) % NCLI, j], op)


def cli_into_3(i: int, j: int, op: int) -> bool:
    """
    pre: 0 <= i < NCLI and 0 <= j < NCLI and 0 <= op < 4
    post: _
    """
    return _cli([param(0) % NCLI, i, j], op)


_FF = ["schemathesis.filters.FilterSet.include", "schemathesis.filters.FilterSet.exclude", "schemathesis.filters.FilterSet._add_filter", "schemathesis.filters.FilterSet.match",
       "schemathesis.filters.Filter.match", "schemathesis.filters.Matcher.for_value", "schemathesis.filters.Matcher.for_regex", "schemathesis.filters.Matcher.for_function",
       "schemathesis.filters.by_value", "schemathesis.filters.by_value_list", "schemathesis.filters.by_regex", "schemathesis.filters.get_operation_attribute",
       "schemathesis.filters.is_deprecated", "schemathesis.filters.expression_to_filter_function", "schemathesis.filters._normalize_method"]


def _cfg_name(c):
    return "include=%s exclude=%s" % (c[0], c[1])


OBLIGATIONS = [
    Ob(fn="match_config", clause="an operation is selected iff it matches at least one include filter (or there are none) and no exclude filter - by value, list, regex, expression, deprecated; mixed-case methods",
       timeout={"quick": 100, "thorough": 200}, params=range(len(CONFIGS)), param_names=[_cfg_name(c) for c in CONFIGS], functions=_FF,
       symbolic="the operation: method spelling (7), path text, 0-2 tags or no tags, optional operationId, deprecated flag, x-internal flag",
       bounds={"quick": "path <= 3 characters, tags/operationId <= 2 characters; %d filter configurations (every matcher kind alone as include and as exclude, 13 include+exclude pairs, double includes/excludes, triples)" % len(CONFIGS),
               "thorough": "path <= 4 characters"},
       stubs=["operation is a duck-typed object with method/path/tags/label/definition.raw/definition.resolved", "schemathesis.filters.hash evaluated outside tracing"],
       outside=["regexes other than the 5 used by the family", "pytest parametrization / lazy fixture plumbing"]),
    Ob(fn="derived_schemas", clause="schema.include()/exclude() return independent schemas: what each offers, and the selected/total counts it reports, follow from its own chain of filters only",
       timeout={"quick": 150, "thorough": 600}, functions=["schemathesis.schemas.BaseSchema.include", "schemathesis.schemas.BaseSchema.exclude", "schemathesis.filters.FilterSet.clone",
                                                           "schemathesis.specs.openapi.schemas.BaseOpenAPISchema.get_all_operations", "schemathesis.specs.openapi.schemas.BaseOpenAPISchema._should_skip",
                                                           "schemathesis.specs.openapi.schemas.BaseOpenAPISchema._measure_statistic"],
       params=range(6), param_names=["first step: %s %s" % st for st in STEPS],
       symbolic="second and third filter steps (6 kinds) and from which earlier schema the third is derived", bounds="3 derivation steps over a 4-operation document", path_timeout=60),
    Ob(fn="resolved_filters", clause="filters judge the operation with its local references resolved (a parameter-name expression applies to inline and $ref'd parameters alike); the selected/total operation and link counts agree with what is offered (a link counts only when its source and target are selected)",
       timeout=300, functions=["schemathesis.specs.openapi.schemas.BaseOpenAPISchema.get_all_operations", "schemathesis.specs.openapi.schemas.BaseOpenAPISchema._should_skip",
                               "schemathesis.specs.openapi.schemas.BaseOpenAPISchema._measure_statistic", "schemathesis.filters.expression_to_filter_function"] + _FF[:4],
       symbolic="two successive derivation steps out of 7 (none, include/exclude by parameter-name expression, method, path, operationId, method regex)", bounds="7 x 7 chains over a 3-operation document with 3 links and one $ref'd parameter"),
    Ob(fn="clone_independence", clause="same at the FilterSet level", timeout={"quick": 120, "thorough": 300}, functions=["schemathesis.filters.FilterSet.clone"] + _FF[:4],
       symbolic="number of include/exclude filters already present, kind of the filter added to the clone", bounds="0-2 includes, 0-2 excludes, 3 new filters"),
    Ob(fn="cli_into", clause="CLI --include-*/--exclude-* options select exactly the operations the flags describe (each flag occurrence one filter)",
       timeout={"quick": 120, "thorough": 300}, params=range(21), param_names=["first option: %s=%r" % (o[0], o[1]) for o in CLI_OPTIONS],
       functions=["schemathesis.cli.commands.run.filters.FilterArguments.into", "schemathesis.cli.commands.run.filters.apply_exclude_filter"] + _FF,
       symbolic="which second option setting (21) is given besides the enumerated first, evaluated operation (4)", bounds="pairs of CLI options; one include regex option in the family; 4 concrete operations", path_timeout=60,
       outside=["several --include-*-regex options together (the code ANDs them; the property does not say)"]),
    Ob(fn="cli_into_3", clause="same, three options at a time", tiers=("thorough",), timeout=300, params=range(21), functions=["schemathesis.cli.commands.run.filters.FilterArguments.into"],
       symbolic="second and third option (first enumerated), evaluated operation", bounds="triples of CLI options", path_timeout=60),
]
