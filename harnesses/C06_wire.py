"""C06 - the request on the wire is the generated case: parameter serialization styles, coercions, headers / media type.

Real code executed symbolically: schemathesis.specs.openapi.serialization.serialize_openapi3_parameters / serialize_swagger2_parameters and
every @conversion (delimited, deep_object, comma_delimited_object, delimited_object, extracted_object, label_*, matrix_*, to_string, to_json);
schemathesis.specs.openapi._hypothesis.jsonify_python_specific_types; schemathesis.generation.hypothesis.builder._stringify_value;
schemathesis.transport.prepare.prepare_headers / prepare_path; RequestsTransport.serialize_case; WSGITransport path building (base_path).
Oracle: an independent decoder per serialization style, written from the OpenAPI 3.0.3 "Style Examples" table.
"""
from vf.h import *
from vf.util import mk_case, pick

import json

import schemathesis
from schemathesis.generation.hypothesis import builder
from schemathesis.specs.openapi import _hypothesis as oh
from schemathesis.specs.openapi import serialization as ser
from schemathesis.transport.prepare import prepare_headers

ALPHA = "ab01"  # item text: no delimiter of any style
NI = tier(2, 2)

# (location, style, explode, type) -> enumerated by the driver
CONFIGS = [
    ("path", "simple", False, "array"), ("path", "simple", True, "array"), ("path", "simple", False, "object"), ("path", "simple", True, "object"),
    ("path", "label", False, "primitive"), ("path", "label", False, "array"), ("path", "label", True, "array"), ("path", "label", False, "object"), ("path", "label", True, "object"),
    ("path", "matrix", False, "primitive"), ("path", "matrix", False, "array"), ("path", "matrix", True, "array"), ("path", "matrix", False, "object"), ("path", "matrix", True, "object"),
    ("query", "form", False, "array"), ("query", "form", True, "array"), ("query", "form", False, "object"), ("query", "form", True, "object"),
    ("query", "spaceDelimited", False, "array"), ("query", "pipeDelimited", False, "array"), ("query", "deepObject", True, "object"),
    ("header", "simple", False, "array"), ("header", "simple", False, "object"), ("header", "simple", True, "object"), ("header", "simple", False, "primitive"),
    ("cookie", "form", False, "array"), ("cookie", "form", False, "object"), ("cookie", "form", False, "primitive"),
]
CONFIG = CONFIGS[param(0) % len(CONFIGS)]


def definition(location, style, explode, type_):
    schema = {"type": {"primitive": "string"}.get(type_, type_)}
    d = {"name": "id", "in": location, "schema": schema, "explode": explode}
    if not (location in ("header", "cookie")):
        d["style"] = style
    return d


def decode(location, style, explode, type_, container):
    """Recover the value of parameter `id` from the serialized container, per the OpenAPI style table. Returns (ok, value)."""
    if location == "query" and style == "form" and explode and type_ == "object":
        rest = {k: v for k, v in container.items() if k != "other"}
        return True, rest  # each property became its own query parameter
    if location == "query" and style == "deepObject":
        out = {}
        for k, v in container.items():
            if k.startswith("id[") and k.endswith("]"):
                out[k[3:-1]] = v
        return True, out
    if "id" not in container:
        return False, None
    text = container["id"]
    if location == "query" and style == "form" and explode and type_ == "array":
        return True, text  # left as a list: the HTTP client repeats the parameter
    if not isinstance(text, str):
        return False, None
    sep = {"spaceDelimited": " ", "pipeDelimited": "|"}.get(style, ",")
    if style == "label":
        if text == "":
            return True, [] if type_ == "array" else ({} if type_ == "object" else "")
        if not text.startswith("."):
            return False, None
        text = text[1:]
        if explode:
            sep = "."
    if style == "matrix":
        if type_ == "primitive":
            if not text.startswith(";id="):
                return False, None
            return True, text[4:]
        if type_ == "array":
            if explode:
                parts = text.split(";")[1:]
                if any(not p.startswith("id=") for p in parts):
                    return False, None
                return True, [p[3:] for p in parts]
            if not text.startswith(";id="):
                return False, None
            text = text[4:]
        else:
            if explode:
                parts = text.split(";")[1:]
                return True, dict(p.split("=", 1) for p in parts)
            if not text.startswith(";id="):
                return False, None
            text = text[4:]
    if type_ == "primitive":
        return True, text
    if type_ == "array":
        return True, text.split(sep) if text != "" else []
    # object
    if explode and style in ("simple", "label"):
        return True, dict(p.split("=", 1) for p in text.split(sep)) if text else {}
    flat = text.split(",") if text else []
    if len(flat) % 2:
        return False, None
    return True, {flat[i]: flat[i + 1] for i in range(0, len(flat), 2)}


def _item_ok(s: str) -> bool:
    return 1 <= len(s) <= NI and all(c in ALPHA for c in s)


def style_roundtrip(n: int, s1: str, s2: str, s3: str) -> bool:
    """
    pre: 1 <= n <= 3 and _item_ok(s1) and _item_ok(s2) and _item_ok(s3)
    post: _
    """
    location, style, explode, type_ = CONFIG
    items = [s1, s2, s3][:n]
    if type_ == "array":
        value = list(items)
    elif type_ == "object":
        value = {"k%d" % i: v for i, v in enumerate(items)}
    else:
        value = s1
    serializer = ser.serialize_openapi3_parameters([definition(location, style, explode, type_), {"name": "other", "in": location, "schema": {"type": "string"}}])
    container = {"id": value, "other": "o"}
    out = serializer(container) if serializer is not None else container
    if out.get("other") != "o":
        return False  # other parameters are untouched
    ok, got = decode(location, style, explode, type_, out)
    return ok and got == value


PRIMS = [0, 5, -1, False, True, "", "a", 0.5]


def primitive_roundtrip(p: int) -> bool:
    """
    pre: 0 <= p < len(PRIMS)
    post: _
    """
    # falsy primitives (0, False, '') must not vanish from label / matrix / header / cookie parameters
    location, style, explode, type_ = CONFIG
    value = pick(PRIMS, p)
    serializer = ser.serialize_openapi3_parameters([definition(location, style, explode, "primitive")])
    out = serializer({"id": value}) if serializer is not None else {"id": value}
    ok, got = decode(location, style, explode, "primitive", out)
    return ok and got == str(value)


SW_FORMATS = [("csv", ","), ("ssv", " "), ("tsv", "\t"), ("pipes", "|"), (None, ",")]


def swagger2_roundtrip(fmt: int, n: int, s1: str, s2: str, in_header: bool) -> bool:
    """
    pre: 0 <= fmt < len(SW_FORMATS) and 0 <= n <= 2 and _item_ok(s1) and _item_ok(s2)
    post: _
    """
    name, sep = pick(SW_FORMATS, fmt)
    d = {"name": "id", "in": "header" if in_header else "query", "type": "array", "items": {"type": "string"}}
    if name is not None:
        d["collectionFormat"] = name
    value = [s1, s2][:n]
    out = ser.serialize_swagger2_parameters([d])({"id": list(value), "other": 1})
    if out["other"] != 1:
        return False
    if in_header and n == 0:
        return isinstance(out["id"], str)
    return (out["id"].split(sep) if out["id"] != "" else []) == value


JV = [True, False, None, 0, 1, "", "a", "true"]


def jsonify(v1: int, v2: int, v3: int, nested: bool) -> bool:
    """
    pre: 0 <= v1 < len(JV) and 0 <= v2 < len(JV) and 0 <= v3 < len(JV)
    post: _
    """
    # top-level booleans / null of path and query parameters become their JSON spelling; nothing else changes
    a, b, c = pick(JV, v1), pick(JV, v2), pick(JV, v3)
    value = {"a": a, "b": b, "n": {"c": c}} if nested else {"a": a, "b": b}
    out = oh.jsonify_python_specific_types(value)

    def want(x):
        return "true" if x is True else "false" if x is False else "null" if x is None else x

    if out["a"] != want(a) or type(out["a"]) is not type(want(a)) or out["b"] != want(b):
        return False
    if nested and (out["n"]["c"] != want(c) or set(out["n"]) != {"c"}):
        return False
    return set(out) == ({"a", "b", "n"} if nested else {"a", "b"})


SV = [True, False, None, 0, 5, "", "a", [1, True, None], {"k": False}, {"k": [None]}]


def stringify(v: int) -> bool:
    """
    pre: 0 <= v < len(SV)
    post: _
    """
    value = pick(SV, v)
    out = builder._stringify_value(value, "query")
    want = {0: "true", 1: "false", 2: "null"}
    if v in want:
        return out == want[v]
    if v in (3, 4):
        return out == str(value) or out == value
    if v in (5, 6):
        return out == value
    if v == 7:
        return out == ["1", "true", "null"] or out == [1, "true", "null"]
    return isinstance(out, (dict, str))


_OK = {"responses": {"200": {"description": "OK"}}}
RAW = {"openapi": "3.0.2", "info": {"title": "t", "version": "1"}, "servers": [{"url": "http://h.io/api"}], "paths": {"/users/{id}": {"post": dict(
    _OK, parameters=[{"name": "id", "in": "path", "required": True, "schema": {"type": "string"}}],
    requestBody={"content": {"application/json": {"schema": {"type": "object"}}, "text/plain": {"schema": {"type": "string"}}}})}}}
SCHEMA = schemathesis.openapi.from_dict(RAW)
OP = SCHEMA["/users/{id}"]["POST"]
SPELL = ["Content-Type", "content-type", "CONTENT-TYPE"]


def content_type_header(media: int, explicit: int, body_kind: int) -> bool:
    """
    pre: 0 <= media <= 1 and 0 <= explicit <= 3 and 0 <= body_kind <= 2
    post: _
    """
    # Content-Type equals the case's media type unless given explicitly; only User-Agent, the case id and explicit headers are added; bodies round-trip
    media_type = pick(["application/json", "text/plain"], media)
    body = pick([{"k": "v", "n": 1}, "text", 7], body_kind) if media == 0 else "plain"
    headers = None if explicit == 0 else {pick(SPELL, explicit - 1): "application/custom"}
    case = mk_case(OP, "c0", path_parameters={"id": "u1"}, body=body, media_type=media_type, headers=headers)
    kwargs = SCHEMA.transport.serialize_case(case, base_url="http://h.io/api", headers={"X-Extra": "e"})
    h = kwargs["headers"]
    cts = [k for k in h if k.lower() == "content-type"]
    if len(cts) != 1 or h[cts[0]] != ("application/custom" if explicit else media_type):
        return False
    allowed = {"content-type", "user-agent", "x-schemathesis-testcaseid", "x-extra"}
    if any(k.lower() not in allowed for k in h) or h["X-Extra"] != "e":
        return False
    if kwargs["method"] != "POST" or kwargs["url"] != "http://h.io/api/users/u1":
        return False
    if media == 0:
        return kwargs.get("json", json.loads(kwargs["data"]) if "data" in kwargs else None) == body
    data = kwargs.get("data")
    return (data.decode("utf8") if isinstance(data, bytes) else data) == "plain"


ENCODED_PATH_VALUES = ["u1", "%2E", "%2E%2E", "a%2Fb", "a%20b", "%25", "a%3Fb", "x%23y", "%41", "%7Bid%7D", "a%2E%2E", "-_~"]


def path_value_on_wire(k: int, trailing_slash: bool) -> bool:
    """
    pre: 0 <= k < len(ENCODED_PATH_VALUES)
    post: _
    """
    # the generator hands over path values already percent-encoded (quote_all: '/', '.', '%', '?', '#' ... never appear raw); the URL that
    # goes to the HTTP client is the base URL joined with the template in which the variable is replaced by exactly that text -
    # nothing is decoded on the way (a decoded %2E / %2F would change the path the API sees)
    value = pick(ENCODED_PATH_VALUES, k)
    case = mk_case(OP, "c0", path_parameters={"id": value}, body={"k": 1}, media_type="application/json")
    base = "http://h.io/api/" if trailing_slash else "http://h.io/api"
    kwargs = SCHEMA.transport.serialize_case(case, base_url=base)
    return kwargs["url"] == "http://h.io/api/users/" + value and case.path_parameters == {"id": value}


QUERY_WIRE_VALUES = [{}, 0, 0.0, False, None, 5, "x", "", [], [0], [""], "0"]


def query_values_on_wire(k1: int, k2: int, k3: int) -> bool:
    """
    pre: k1 == param(0) % len(QUERY_WIRE_VALUES) and all(0 <= k < len(QUERY_WIRE_VALUES) for k in (k2, k3))
    post: _
    """
    # an empty object is sent as an empty value (`filter=`) so that the parameter is present; no other value is touched by that
    # (0, false, '' and [] next to it stay what was generated), and the case itself is not modified
    values = [pick(QUERY_WIRE_VALUES, k) for k in (k1, k2, k3)]
    query = {"a": values[0], "b": values[1], "c": values[2]}
    snapshot = dict(query)
    case = mk_case(OP, "c0", path_parameters={"id": "u1"}, query=query)
    params = SCHEMA.transport.serialize_case(case, base_url="http://h.io/api")["params"]
    if case.query != snapshot or set(params) != {"a", "b", "c"}:
        return False
    for name, value in snapshot.items():
        got = params[name]
        if isinstance(value, dict) and not value:
            if got != "":
                return False
        elif got != value or type(got) is not type(value):
            return False
    return True


def base_path_follows_base_url(first: int, second: int, read_before: bool) -> bool:
    """
    pre: 0 <= first <= 2 and 0 <= second <= 2
    post: _
    """
    # the path prefix used by in-process (WSGI) transports follows the CURRENT base URL of the schema
    urls = ["http://h.io/api", "http://h.io/v2/", "http://h.io"]
    want = ["/api/", "/v2/", "/"]
    schema = schemathesis.openapi.from_dict(RAW)
    schema.base_url = pick(urls, first)
    if read_before:
        if schema.base_path != pick(want, first):
            return False
    schema.base_url = pick(urls, second)
    op = schema["/users/{id}"]["POST"]
    return schema.base_path == pick(want, second) and op.full_path == pick(want, second) + "users/{id}"


_SF = ["schemathesis.specs.openapi.serialization.serialize_openapi3_parameters", "schemathesis.specs.openapi.serialization._serialize_path_openapi3",
       "schemathesis.specs.openapi.serialization._serialize_query_openapi3", "schemathesis.specs.openapi.serialization._serialize_header_openapi3",
       "schemathesis.specs.openapi.serialization._serialize_cookie_openapi3", "schemathesis.specs.openapi.serialization.delimited / deep_object / comma_delimited_object / delimited_object / extracted_object / label_* / matrix_* / to_string"]
_CN = ["%s style=%s explode=%s %s" % c for c in CONFIGS]
_PRIM = [i for i, c in enumerate(CONFIGS) if c[3] == "primitive"]
OBLIGATIONS = [
    Ob(fn="style_roundtrip", clause="a standards-conforming decoder for each declared serialization style recovers the generated value (arrays and objects in every style x explode combination); other parameters are untouched",
       timeout={"quick": 200, "thorough": 600}, params=range(len(CONFIGS)), param_names=_CN, functions=_SF,
       symbolic="1-3 items (array elements / object values / the primitive) as strings", bounds="items of 1-2 characters over 'ab01' (no style delimiter: the styles define no escaping)",
       outside=["percent-encoding and URL join (urllib/requests: byte-level code CrossHair realises)", "items containing the style's delimiters", "cookie explode=true (the code drops it, following Swagger's examples)"]),
    Ob(fn="primitive_roundtrip", clause="primitive values incl. 0, false and the empty string survive label / matrix / header / cookie serialization",
       timeout=120, params=_PRIM, param_names=_CN, functions=_SF, symbolic="which of 8 primitives (0, 5, -1, False, True, '', 'a', 0.5)", bounds="8 primitives"),
    Ob(fn="swagger2_roundtrip", clause="Swagger 2.0 collectionFormat csv/ssv/tsv/pipes round-trips", timeout=200, functions=["schemathesis.specs.openapi.serialization.serialize_swagger2_parameters"],
       symbolic="collection format (5), 0-2 items, query or header", bounds="items of 1-2 characters"),
    Ob(fn="jsonify", clause="path/query values: top-level booleans and null become true/false/null, nothing else changes", timeout=200,
       functions=["schemathesis.specs.openapi._hypothesis.jsonify_python_specific_types"], symbolic="3 values out of 8, nesting", bounds="8 values"),
    Ob(fn="stringify", clause="coverage-phase values are stringified the JSON way", timeout=120, functions=["schemathesis.generation.hypothesis.builder._stringify_value"], symbolic="which of 10 values", bounds="10 values"),
    Ob(fn="content_type_header", clause="Content-Type equals the case's media type unless set explicitly (any letter case); only standard client headers, configured headers and the case id are added; JSON and text bodies round-trip; the URL is base URL + path with the variable replaced",
       timeout=300, functions=["schemathesis.transport.requests.RequestsTransport.serialize_case", "schemathesis.transport.prepare.prepare_headers", "schemathesis.transport.prepare.prepare_url",
                               "schemathesis.transport.serialization.serialize_json"], symbolic="media type (2), explicit Content-Type spelling (none / 3 spellings), body kind (3)", bounds="one operation; concrete URL text"),
    Ob(fn="path_value_on_wire", clause="the URL is the base URL joined with the path template in which the variable is replaced by the (already percent-encoded) value, nothing decoded on the way",
       timeout=200, functions=["schemathesis.transport.prepare.prepare_url", "schemathesis.transport.prepare.prepare_path", "schemathesis.transport.requests.RequestsTransport.serialize_case"],
       symbolic="which of 12 percent-encoded path values (encoded dot, dot-dot, slash, space, percent, ?, #, letter, braces, unreserved marks); base URL with or without trailing slash",
       bounds="12 values x 2 base URL spellings", stubs=["urllib.parse.quote/unquote/urljoin on concrete text"], outside=["requests' own URL preparation after this point"]),
    Ob(fn="query_values_on_wire", clause="the query handed to the HTTP client is the generated one: only an empty object is replaced (by an empty value, to keep the parameter present); 0, false, '' and [] are untouched and the case is not modified",
       timeout=300, params=range(12), functions=["schemathesis.transport.requests.RequestsTransport.serialize_case"], symbolic="three query parameters, each one of 12 values ({}, 0, 0.0, false, null, 5, text, '', [], [0], [''], '0')", bounds="3 parameters x 12 values"),
    Ob(fn="base_path_follows_base_url", clause="the base path joined to the path template follows the configured base URL, also when it is re-configured after first use",
       timeout=300, functions=["schemathesis.schemas.BaseSchema.base_path", "schemathesis.schemas.BaseSchema.get_full_path", "schemathesis.schemas.APIOperation.full_path"],
       symbolic="first and second base URL (3 each), whether the base path was read in between", bounds="2 configurations in sequence"),
]
