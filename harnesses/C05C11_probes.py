"""C05 / C11 - the capability probe: whatever the API answers (or fails to answer), the probing phase ends with exactly one
PhaseFinished event carrying the outcome; a transport error is reported in-protocol, never raised through the event stream.

Real code executed symbolically: schemathesis.engine.phases.probes.execute, run, send, NullByteInHeader.prepare_request / analyze_response.
Symbolic: the HTTP status of the answer, or which requests exception the transport raises.
Stub: requests.Session (prepare_request / send scripted), formats.register (recorder).
"""
from vf.h import *
from vf.util import pick

import types

import requests
from requests import exceptions as rex

from schemathesis.core.result import Err, Ok
from schemathesis.engine import Status, events
from schemathesis.engine.phases import probes
from schemathesis.specs.openapi import formats

FAULTS = [None, rex.ConnectionError, rex.Timeout, rex.ConnectTimeout, rex.ReadTimeout, rex.SSLError, rex.ProxyError, rex.TooManyRedirects,
          rex.ContentDecodingError, rex.ChunkedEncodingError, rex.InvalidURL, rex.InvalidHeader, rex.RetryError, rex.MissingSchema, rex.RequestException]


class _Session:
    def __init__(self, fault, status):
        self.fault, self.status, self.sent = fault, status, []

    def prepare_request(self, request):
        prepared = requests.PreparedRequest()
        prepared.method, prepared.url, prepared.headers = request.method, request.url, dict(request.headers)
        return prepared

    def send(self, request, **kwargs):
        self.sent.append(request)
        if self.fault is not None:
            raise self.fault("boom", request=request) if self.fault is not rex.MissingSchema else self.fault("no scheme")
        return types.SimpleNamespace(status_code=self.status)


def probe_phase(fault: int, status: int) -> bool:
    """
    pre: 0 <= fault < len(FAULTS) and 100 <= status <= 599
    post: _
    """
    exc_type = pick(FAULTS, fault)
    session = _Session(exc_type, status)
    ctx = types.SimpleNamespace(schema=types.SimpleNamespace(get_base_url=lambda: "http://127.0.0.1:1/api"), session=session,
                                config=types.SimpleNamespace(network=types.SimpleNamespace(timeout=None)))
    registered = []
    saved = formats.register, formats.header_values
    formats.register, formats.header_values = (lambda name, strategy: registered.append(name)), (lambda **kwargs: "strategy")
    try:
        try:
            out = list(probes.execute(ctx, "PHASE"))
        except Exception:
            return False  # the event stream must not die on an unusual answer
    finally:
        formats.register, formats.header_values = saved
    if len(out) != 1 or not isinstance(out[0], events.PhaseFinished) or out[0].phase != "PHASE":
        return False
    finished = out[0]
    if exc_type is None:
        # an answer was received: NULL bytes in headers are marked as unsupported exactly on a 400
        return finished.status == Status.SUCCESS and isinstance(finished.payload, Ok) and bool(registered) == (status == 400) and len(session.sent) == 1
    if exc_type is rex.MissingSchema:
        return finished.status == Status.SUCCESS and not registered
    # any other transport-level error is reported as the outcome of the phase
    return finished.status == Status.ERROR and isinstance(finished.payload, Err) and isinstance(finished.payload.err(), exc_type) and not registered


OBLIGATIONS = [
    Ob(fn="probe_phase", clause="the probing phase closes with exactly one PhaseFinished whatever the API answers: any requests-level error is reported as the phase outcome (ERROR), never raised through the event stream; a 400 marks NULL bytes as unsupported",
       timeout=200, functions=["schemathesis.engine.phases.probes.execute", "schemathesis.engine.phases.probes.run", "schemathesis.engine.phases.probes.send",
                               "schemathesis.engine.phases.probes.NullByteInHeader.prepare_request", "schemathesis.engine.phases.probes.NullByteInHeader.analyze_response"],
       symbolic="HTTP status of the answer (100..599) or which of 14 requests exception classes the transport raises", bounds="one probe (all that exist); 14 exception classes of requests.exceptions",
       stubs=["requests.Session replaced by a scripted object", "formats.register / header_values replaced by a recorder (building Hypothesis strategies is not re-executable under tracing)"], outside=["exceptions that are not requests.RequestException subclasses (not caught by design)"]),
]
