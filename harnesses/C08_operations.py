"""C08 - every documented operation is offered with its effective parameters, or reported; lookups agree with iteration.

Real code executed symbolically: BaseOpenAPISchema.get_all_operations, _collect_operation_parameters, collect_parameters, make_operation,
MethodMap / schema[path][method], get_operation_by_id, get_operation_by_reference, OperationCache, parameters_to_json_schema,
_into_err / _raise_invalid_schema.
Symbolic: which parameters sit at path level and at operation level (names, locations colliding or not), which path items carry
path-level parameters, the order in which the lookup routes are used, which operation of the document is malformed.
"""
from vf.h import *
from vf.util import pick

import copy

import schemathesis
from schemathesis.core.result import Err, Ok
from schemathesis.specs.openapi.parameters import parameters_to_json_schema

_OK = {"responses": {"200": {"description": "OK"}}}
NAMES = ["a", "b", "A"]  # parameter names are case-sensitive (the upper-case variant is only used for query parameters: header names are not)
LOCS = ["query", "header"]


def _p(name, loc, marker, required=False):
    return {"name": name, "in": loc, "required": required, "schema": {"type": "string", "enum": [marker]}}


def merge_doc():
    return {"openapi": "3.0.2", "info": {"title": "t", "version": "1"}, "paths": {
        "/x": {"parameters": [_p("a", "query", "path-1"), _p("b", "query", "path-2")],
               "get": dict(_OK, operationId="getX", parameters=[_p("a", "query", "op-1"), _p("b", "header", "op-2")])}}}


def effective(path_level, op_level):
    """OpenAPI: path-level parameters can be overridden at the operation level (same name + location), not removed."""
    out = {}
    for name, loc, marker in path_level:
        out[(name, loc)] = marker
    for name, loc, marker in op_level:
        out[(name, loc)] = marker
    return out


def _set(param, name, loc):
    param["name"], param["in"] = name, loc


def merged_parameters(n1: int, l1: int, n2: int, l2: int, m1: int, k1: int, m2: int, k2: int) -> bool:
    """
    pre: all(0 <= v <= 1 for v in (n1, l1, n2, l2, k1, k2)) and 0 <= m1 <= 2 and 0 <= m2 <= 2
    pre: (n1, l1) != (n2, l2) and (m1, k1) != (m2, k2) and (m1 != 2 or k1 == 0) and (m2 != 2 or k2 == 0)
    post: _
    """
    route = param(0) % 3
    raw = merge_doc()
    path_params = raw["paths"]["/x"]["parameters"]
    op_params = raw["paths"]["/x"]["get"]["parameters"]
    _set(path_params[0], pick(NAMES, n1), pick(LOCS, l1))
    _set(path_params[1], pick(NAMES, n2), pick(LOCS, l2))
    _set(op_params[0], pick(NAMES, m1), pick(LOCS, k1))
    _set(op_params[1], pick(NAMES, m2), pick(LOCS, k2))
    schema = schemathesis.openapi.from_dict(raw)
    if route == 0:
        results = list(schema.get_all_operations())
        if len(results) != 1 or not isinstance(results[0], Ok):
            return False
        operation = results[0].ok()
    elif route == 1:
        operation = schema["/x"]["GET"]
    else:
        operation = schema.get_operation_by_id("getX")
    want = effective([(p["name"], p["in"], p["schema"]["enum"][0]) for p in path_params], [(p["name"], p["in"], p["schema"]["enum"][0]) for p in op_params])
    for loc, container in (("query", operation.query), ("header", operation.headers)):
        built = parameters_to_json_schema(operation, container)
        expected = {name: marker for (name, l), marker in want.items() if l == loc}
        got = {name: sub.get("enum", [None])[0] for name, sub in built["properties"].items()}
        if got != expected:
            return False  # tested with a different definition than the effective one
    return True


PATHS3 = ["/users/{user_id}", "/health", "/items"]


def shared_doc(flags):
    paths = {}
    for k, path in enumerate(PATHS3):
        item = {"get": dict(_OK, operationId="op%d" % k)}
        if "{user_id}" in path:
            item["get"]["parameters"] = [{"name": "user_id", "in": "path", "required": True, "schema": {"type": "string"}}]
        if flags[k]:
            item["parameters"] = [{"name": "X-Tenant-%d" % k, "in": "header", "schema": {"type": "string"}}]
        paths[path] = item
    return {"openapi": "3.0.2", "info": {"title": "t", "version": "1"}, "paths": paths}


def path_level_isolation(f0: bool, f1: bool, f2: bool, route: int) -> bool:
    """
    pre: 0 <= route <= 2
    post: _
    """
    # path-level parameters belong to their own path item only, whatever precedes it in the document, for every access route
    flags = [f0, f1, f2]
    schema = schemathesis.openapi.from_dict(shared_doc(flags))
    if route == 0:
        ops = {r.ok().path: r.ok() for r in schema.get_all_operations() if isinstance(r, Ok)}
    elif route == 1:
        ops = {p: schema[p]["GET"] for p in PATHS3}
    else:
        ops = {p: schema.get_operation_by_id("op%d" % k) for k, p in enumerate(PATHS3)}
    if sorted(ops) != sorted(PATHS3):
        return False
    for k, path in enumerate(PATHS3):
        headers = sorted(p.name for p in ops[path].headers)
        if headers != (["X-Tenant-%d" % k] if flags[k] else []):
            return False
        if sorted(p.name for p in ops[path].path_parameters) != (["user_id"] if "{user_id}" in path else []):
            return False
    return True


LOOKUP_DOC = {"openapi": "3.0.2", "info": {"title": "t", "version": "1"}, "paths": {
    "/a/b": {"get": dict(_OK, operationId="plain", parameters=[_p("q", "query", "plain")])},
    "/a~1b": {"get": dict(_OK, operationId="tilde", parameters=[_p("q", "query", "tilde")])},
    "/c~0d/{id}": {"parameters": [{"name": "id", "in": "path", "required": True, "schema": {"type": "string"}}],
                   "put": dict(_OK, operationId="mixed", parameters=[_p("q", "query", "mixed")])},
}}
TARGETS = [("/a/b", "GET", "plain", "#/paths/~1a~1b/get"), ("/a~1b", "GET", "tilde", "#/paths/~1a~01b/get"), ("/c~0d/{id}", "PUT", "mixed", "#/paths/~1c~00d~1{id}/put")]
NACC = tier(3, 4)


def lookup_agreement(t2: int, r2: int, t3: int, r3: int, t4: int, r4: int) -> bool:
    """
    pre: all(0 <= t <= 2 for t in (t2, t3, t4)) and all(0 <= r <= 3 for r in (r2, r3, r4))
    post: _
    """
    t1, r1 = param(0) // 4 % 3, param(0) % 4
    # by path+method, by operationId, by JSON reference and by iteration: always that same operation, whatever was accessed before
    schema = schemathesis.openapi.from_dict(copy.deepcopy(LOOKUP_DOC))
    depth = len(schema.resolver._scopes_stack)
    for t, r in [(t1, r1), (t2, r2), (t3, r3), (t4, r4)][:NACC]:
        path, method, op_id, ref = pick(TARGETS, t)
        if r == 0:
            found = [x.ok() for x in schema.get_all_operations() if isinstance(x, Ok) and x.ok().path == path]
            if len(found) != 1:
                return False
            operation = found[0]
        elif r == 1:
            operation = schema[path][method]
        elif r == 2:
            operation = schema.get_operation_by_id(op_id)
        else:
            operation = schema.get_operation_by_reference(ref)
        if operation.path != path or operation.method.upper() != method:
            return False
        q = [p for p in operation.query]
        if len(q) != 1 or q[0].definition["schema"]["enum"] != [op_id]:
            return False
        if (sorted(p.name for p in operation.path_parameters) == ["id"]) != (op_id == "mixed"):
            return False
        if len(schema.resolver._scopes_stack) != depth:
            return False  # resolution scope restored after each call
    return True


BROKEN = ["nothing", "parameter without `in`", "dangling $ref in parameters", "parameters is not a list of objects", "path item behind a dangling $ref"]


def errors_named(which: int, kind: int) -> bool:
    """
    pre: 0 <= which <= 2 and 0 <= kind < len(BROKEN)
    post: _
    """
    raw = shared_doc([False, False, False])
    path = pick(PATHS3, which)
    if kind == 1:
        raw["paths"][path]["get"]["parameters"] = [{"name": "z", "schema": {"type": "string"}}]
    elif kind == 2:
        raw["paths"][path]["get"]["parameters"] = [{"$ref": "#/components/parameters/Missing"}]
    elif kind == 3:
        raw["paths"][path]["get"]["parameters"] = ["oops"]
    elif kind == 4:
        raw["paths"][path] = {"$ref": "#/components/pathItems/Missing"}
    schema = schemathesis.openapi.from_dict(raw)
    results = list(schema.get_all_operations())
    oks = [r.ok().path for r in results if isinstance(r, Ok)]
    errs = [r.err() for r in results if isinstance(r, Err)]
    if kind == 0:
        return sorted(oks) == sorted(PATHS3) and not errs
    # the malformed operation is reported as an error that names its path; all others are offered; none is silently dropped
    if sorted(oks) != sorted(p for p in PATHS3 if p != path):
        return False
    return len(errs) == 1 and errs[0].path == path and (kind == 4 or (errs[0].method or "").lower() == "get")



# ---------------------------------------------------------------------------------------------------------------
# YAML: mapping keys stay strings whatever scalar type they look like (numeric status codes, on/off, 1.0, null, dates)

import yaml as _yaml

from schemathesis.core import deserialization as _de

_LOADER = _de.get_yaml_loader()
YAML_TAGS = ["str", "int", "bool", "float", "null", "timestamp", "merge-like custom"]
YAML_KEYS = ["200", "on", "1.0", "null", "2024-01-01", "~", "1e3", "name", ".5", "0x1F"]


class _Constructor:
    """The part of yaml.constructor.SafeConstructor that construct_mapping relies on (the YAML parser itself is C code)."""

    def flatten_mapping(self, node):
        return None

    def construct_object(self, node, deep=False):
        tag = node.tag.rsplit(":", 1)[-1]
        if tag == "int":
            return 200
        if tag == "float":
            return 1.5
        if tag == "bool":
            return True
        if tag == "null":
            return None
        return node.value


def yaml_keys(tag1: int, key1: int, tag2: int, key2: int) -> bool:
    """
    pre: tag1 == param(0) % len(YAML_TAGS) and 0 <= tag2 < len(YAML_TAGS) and 0 <= key1 < len(YAML_KEYS) and 0 <= key2 < len(YAML_KEYS) and key1 != key2
    post: _
    """
    def scalar(tag, text):
        return _yaml.ScalarNode("tag:yaml.org,2002:" + ("custom" if tag.startswith("merge") else tag), text)

    k1, k2 = pick(YAML_KEYS, key1), pick(YAML_KEYS, key2)
    node = _yaml.MappingNode("tag:yaml.org,2002:map", [(scalar(pick(YAML_TAGS, tag1), k1), scalar("str", "v1")), (scalar(pick(YAML_TAGS, tag2), k2), scalar("int", "7"))])
    mapping = _LOADER.construct_mapping(_Constructor(), node)
    # the same document written as JSON has string keys: whatever the YAML resolver made of the key scalar, the key is its text
    return list(mapping) == [k1, k2] and all(type(k) is str for k in mapping) and mapping[k1] == "v1" and mapping[k2] == 200


_F = ["schemathesis.specs.openapi.schemas.BaseOpenAPISchema.get_all_operations", "schemathesis.specs.openapi.schemas.BaseOpenAPISchema._collect_operation_parameters",
      "schemathesis.specs.openapi.schemas.OpenApi30.collect_parameters", "schemathesis.specs.openapi.schemas.BaseOpenAPISchema.make_operation",
      "schemathesis.specs.openapi.schemas.MethodMap._init_operation", "schemathesis.specs.openapi.schemas.BaseOpenAPISchema.get_operation_by_id",
      "schemathesis.specs.openapi.schemas.BaseOpenAPISchema.get_operation_by_reference", "schemathesis.specs.openapi._cache.OperationCache",
      "schemathesis.specs.openapi.parameters.parameters_to_json_schema", "schemathesis.specs.openapi.references.InliningResolver"]
_ST = ["the document is loaded inside the harness with schemathesis.openapi.from_dict (no file / network)"]
OBLIGATIONS = [
    Ob(fn="yaml_keys", clause="loading does not depend on the serialisation: YAML mapping keys stay strings whatever scalar type the resolver assigns them (integers, on/off booleans, floats such as 1.0 / 1e3 / .5, null / ~, date-like text)",
       timeout=200, params=range(7), functions=["schemathesis.core.deserialization.get_yaml_loader (construct_mapping)"], symbolic="the resolved tag (7) and the text (10) of two keys of one mapping", bounds="2 keys x 7 tags x 10 texts",
       stubs=["the scanner / parser / resolver of PyYAML (C code) is replaced by hand-built key nodes carrying an arbitrary tag", "construct_object of the enclosing constructor returns a value of the tag's type"],
       outside=["which tag PyYAML's resolver assigns to which text (its implicit-resolver regexes)"]),
    Ob(fn="merged_parameters", clause="effective inputs = path-level parameters overridden by operation-level parameters of the same name and location, through iteration, path+method lookup and operationId lookup",
       timeout={"quick": 400, "thorough": 900}, params=range(3), functions=_F, symbolic="name and location (2) of two path-level and two operation-level parameters (colliding or not, incl. names differing only by case); access route enumerated",
       bounds="2 + 2 parameters over 2 (path level) / 3 (operation level) names x 2 locations", stubs=_ST, outside=["$ref'd parameters at depth, security parameters, request bodies"]),
    Ob(fn="path_level_isolation", clause="no operation is tested with a different definition: path-level parameters apply to their own path item only, for every access route",
       timeout=300, functions=_F[:6], symbolic="which of 3 consecutive path items declare path-level parameters; access route (3)", bounds="3 path items", stubs=_ST),
    Ob(fn="lookup_agreement", clause="lookup by path and method, by operationId, by JSON reference and iteration return the same operation, in any order of access (shared caches), incl. paths with ~0 / ~1 escapes",
       timeout={"quick": 400, "thorough": 1200}, params=range(12), functions=_F, symbolic="sequence of (target operation, access route) pairs; the first pair is enumerated",
       bounds={"quick": "3 accesses over 3 operations x 4 routes", "thorough": "4 accesses"}, stubs=_ST, outside=["multi-file documents / remote references", "YAML vs JSON scalar typing (PyYAML: C/regex code)"]),
    Ob(fn="errors_named", clause="a malformed operation is reported as a schema error naming its path (and method), every other operation is still offered, none is silently dropped",
       timeout=300, functions=_F[:1] + ["schemathesis.specs.openapi.schemas.BaseOpenAPISchema._into_err", "schemathesis.specs.openapi.schemas.BaseOpenAPISchema._raise_invalid_schema"],
       symbolic="which of 3 operations is broken and how (4 kinds)", bounds="3 operations x 5 kinds", stubs=_ST),
]
