"""C12 - configured bounds reach the state machine runner: the step count (and the other Hypothesis settings) a user configured are the
ones the stateful phase runs with.

Real code executed symbolically: schemathesis.engine.phases.stateful._executor._get_hypothesis_settings_kwargs_override.
Symbolic: the configured stateful_step_count (any positive int), which of phases / deadline / health checks were customised.
"""
from vf.h import *

import types

import hypothesis

from schemathesis.engine.phases.stateful import _executor as sx
from schemathesis.generation.stateful.state_machine import DEFAULT_STATE_MACHINE_SETTINGS

_DEFAULT = hypothesis.settings()
_CUSTOM_PHASES = (hypothesis.Phase.generate,)
_saved_settings = hypothesis.settings


def step_count_override(step: int, custom_phases: bool, custom_deadline: bool, custom_health: bool) -> bool:
    """
    pre: step >= 1
    post: _
    """
    settings = types.SimpleNamespace(
        phases=_CUSTOM_PHASES if custom_phases else _DEFAULT.phases,
        stateful_step_count=step,
        deadline=12345 if custom_deadline else _DEFAULT.deadline,
        suppress_health_check=(hypothesis.HealthCheck.too_slow,) if custom_health else _DEFAULT.suppress_health_check,
    )
    kwargs = sx._get_hypothesis_settings_kwargs_override(settings)
    effective = kwargs.get("stateful_step_count", step)
    # a stateful sequence never exceeds the configured number of steps: an explicit value is kept whatever else was customised;
    # only the untouched Hypothesis default (50) is replaced by schemathesis' own default
    if step != _DEFAULT.stateful_step_count:
        if effective != step:
            return False
    elif effective != DEFAULT_STATE_MACHINE_SETTINGS.stateful_step_count:
        return False
    if custom_phases and "phases" in kwargs:
        return False
    if custom_deadline and "deadline" in kwargs:
        return False
    return effective <= step


OBLIGATIONS = [
    Ob(fn="step_count_override", clause="a stateful sequence never exceeds the configured number of steps: the configured stateful_step_count is the one handed to the state machine runner, whatever other settings were customised",
       timeout=120, functions=["schemathesis.engine.phases.stateful._executor._get_hypothesis_settings_kwargs_override"],
       symbolic="configured step count (any int >= 1), whether phases / deadline / suppressed health checks were customised", bounds="none on the step count (unbounded int)",
       stubs=["the hypothesis.settings object is a plain namespace carrying the four attributes the function reads"],
       outside=["Hypothesis' own enforcement of stateful_step_count inside the rule-based state machine runner"]),
]
