"""C14 - configured credentials and overrides reach every request; auth tokens are fetched at most once per interval and key.

Real code executed symbolically: schemathesis.auths.CachingAuthProvider.get, KeyedCachingAuthProvider (_get/_set_cache_entry),
schemathesis.transport.prepare.prepare_headers, schemathesis.engine.phases.unit.get_strategy_kwargs,
schemathesis.generation.overrides.Override.for_operation/_for_parameters, the override/auth block of
schemathesis.generation.hypothesis.builder.add_coverage, schemathesis.auths.set_on_case.
Symbolic: the clock (non-decreasing int instants), refresh interval, cache key per call, whether a concurrent worker refreshed the same
key while this one waited for the lock; header-name spellings; which parameters an operation declares; what was generated.
"""
from vf.h import *
from vf.util import mk_case, pick, untraced

import schemathesis
from schemathesis import auths
from schemathesis.engine.config import EngineConfig, ExecutionConfig, NetworkConfig
from schemathesis.engine.phases import unit
from schemathesis.generation.hypothesis import builder
from schemathesis.generation.overrides import Override
from schemathesis.transport.prepare import prepare_headers

_OK = {"responses": {"200": {"description": "OK"}}}
RAW = {"openapi": "3.0.2", "info": {"title": "t", "version": "1"}, "paths": {
    "/both": {"get": dict(_OK, parameters=[{"name": "q", "in": "query", "required": True, "schema": {"type": "string"}},
                                           {"name": "X-Key", "in": "header", "schema": {"type": "string"}},
                                           {"name": "sid", "in": "cookie", "schema": {"type": "string"}}])},
    "/none": {"get": dict(_OK)},
    "/id/{id}": {"get": dict(_OK, parameters=[{"name": "id", "in": "path", "required": True, "schema": {"type": "string"}}])},
}}
SCHEMA = schemathesis.openapi.from_dict(RAW)
OPS = [SCHEMA["/both"]["GET"], SCHEMA["/none"]["GET"], SCHEMA["/id/{id}"]["GET"]]
_ = [list(op.iter_parameters()) for op in OPS]


class Clock:
    def __init__(self, deltas):
        self.deltas, self.i, self.now = list(deltas), 0, 0

    def __call__(self):
        if self.i < len(self.deltas):
            self.now += self.deltas[self.i]
        self.i += 1
        return self.now


class Fetcher:
    """The user's provider: every get() is a token request to the API."""

    def __init__(self, clock):
        self.clock, self.fetches = clock, []

    def get(self, case, context):
        self.fetches.append((context.key, self.clock.now))
        return "token-%d" % len(self.fetches)

    def set(self, case, data, context):
        case.headers = {"Authorization": data}


class HookLock:
    """threading.Lock stand-in: while this worker waits for the lock, another worker may complete a refresh of the same key."""

    def __init__(self):
        self.on_enter = None

    def __enter__(self):
        if self.on_enter is not None:
            hook, self.on_enter = self.on_enter, None
            hook()
        return self

    def __exit__(self, *a):
        return False


def _key_of(case, context):
    return context.key


def _check_fetches(fetcher, interval) -> bool:
    # two fetches for the same key are at least `interval` apart
    for i, (key_i, t_i) in enumerate(fetcher.fetches):
        for key_j, t_j in fetcher.fetches[i + 1:]:
            if key_i == key_j and t_j - t_i < interval:
                return False
    return True


def token_cache(d1: int, d2: int, d3: int, d4: int, d5: int, d6: int, interval: int, k1: int, k2: int, k3: int, race2: bool) -> bool:
    """
    pre: all(0 <= d <= 5 for d in (d1, d2, d3, d4, d5, d6)) and 1 <= interval <= 6 and all(0 <= k <= 1 for k in (k1, k2, k3))
    post: _
    """
    keyed, race1 = bool(param(0) // 2 % 2), bool(param(0) % 2)  # enumerated by the driver
    clock = Clock([d1, d2, d3, d4, d5, d6, 0, 0, 0, 0, 0, 0])
    fetcher = Fetcher(clock)
    lock = HookLock()
    if keyed:
        provider = untraced(auths.KeyedCachingAuthProvider, fetcher, refresh_interval=interval, timer=clock, _refresh_lock=lock, cache_by_key=_key_of)
    else:
        provider = untraced(auths.CachingAuthProvider, fetcher, refresh_interval=interval, timer=clock, _refresh_lock=lock)
    keys = [pick([0, 1], k) for k in (k1, k2, k3)] if keyed else [0, 0, 0]  # concrete on each path (they become dict keys)
    races = [race1, race2, False]
    last_for_key = {}
    for n in range(3):
        ctx = auths.AuthContext(operation=OPS[0], app=None)
        ctx.key = keys[n]
        case = mk_case(OPS[0], "c%d" % n)
        if races[n]:
            def other_worker(ctx=ctx, case=case):
                # a concurrent worker, holding the lock before us, fetched and stored a token for the same key
                data = fetcher.get(case, ctx)
                provider._set_cache_entry(data, case, ctx)
            lock.on_enter = other_worker
        data = provider.get(case, ctx)
        lock.on_enter = None
        # the returned token is the latest one fetched for that key
        mine = [i for i, (key, _) in enumerate(fetcher.fetches) if key == keys[n]]
        if not mine or data != "token-%d" % (mine[-1] + 1):
            return False
    return _check_fetches(fetcher, interval)


HEADER_SPELLINGS = ["X-Key", "x-key", "X-KEY"]


def header_precedence(spelling: int, generated: int, user_agent: bool) -> bool:
    """
    pre: 0 <= spelling <= 2 and 0 <= generated <= 2
    post: _
    """
    # a user-configured header wins over a generated header of the same name, whatever the letter case; nothing else is added
    gen_headers = pick([None, {}, {"X-Key": "generated", "X-Other": "o"}], generated)
    case = mk_case(OPS[0], "c0", headers=gen_headers)
    user = {pick(HEADER_SPELLINGS, spelling): "user"}
    if user_agent:
        user["User-Agent"] = "custom"
    final = prepare_headers(case, user)
    if final["X-Key"] != "user" or len([k for k in final if k.lower() == "x-key"]) != 1:
        return False
    if generated == 2 and final.get("X-Other") != "o":
        return False
    if user_agent and final["User-Agent"] != "custom":
        return False
    allowed = {"x-key", "x-other", "user-agent", "x-schemathesis-testcaseid"}
    if any(k.lower() not in allowed for k in final):
        return False
    # the case itself is not modified
    return case.headers is None or dict(case.headers) == (gen_headers or {})


def strategy_kwargs(op: int, set_q: bool, set_h: bool, set_c: bool, set_p: bool, cfg_headers: int) -> bool:
    """
    pre: 0 <= op <= 2 and 0 <= cfg_headers <= 2
    post: _
    """
    override = Override(query={"q": "Q"} if set_q else {}, headers={"X-Key": "H"} if set_h else {}, cookies={"sid": "C"} if set_c else {},
                        path_parameters={"id": "P"} if set_p else {})
    net_headers = pick([{}, {"Authorization": "Bearer t"}, {"Authorization": "Bearer t", "User-Agent": "ua", "X-Key": "net"}], cfg_headers)
    config = EngineConfig(execution=ExecutionConfig(hypothesis_settings=None), network=NetworkConfig(headers=net_headers), override=override)
    ctx = type("Ctx", (), {"config": config})()
    operation = pick(OPS, op)
    kwargs = unit.get_strategy_kwargs(ctx, operation)
    declared = {0: {"query": "q", "headers": "X-Key", "cookies": "sid"}, 1: {}, 2: {"path_parameters": "id"}}[op]
    given = {"query": ("q", "Q", set_q), "cookies": ("sid", "C", set_c), "path_parameters": ("id", "P", set_p)}
    for container, (name, value, is_set) in given.items():
        applies = is_set and declared.get(container) == name
        if applies and kwargs.get(container, {}).get(name) != value:
            return False  # overrides reach generation for every operation that declares the parameter
        if not applies and name in kwargs.get(container, {}):
            return False  # ... and only for those
    # configured headers go to every operation (except User-Agent, which the transport sets); they win over --set-header
    headers = kwargs.get("headers", {})
    if cfg_headers:
        if headers.get("Authorization") != "Bearer t" or any(k.lower() == "user-agent" for k in headers):
            return False
        if cfg_headers == 2 and headers.get("X-Key") != "net":
            return False
    elif set_h and op == 0:
        if headers.get("X-Key") != "H":
            return False
    return True


def coverage_overrides(h_kind: int, q_kind: int, with_auth: bool, ncases: int) -> bool:
    """
    pre: 0 <= h_kind <= 2 and 0 <= q_kind <= 2 and 1 <= ncases <= 2
    post: _
    """
    # the boundary-value phase: user headers / overrides win over generated values on every case; auth is applied to every case
    operation = OPS[0]
    gen_h = pick([None, {}, {"X-Key": "generated", "X-Other": "o"}], h_kind)
    gen_q = pick([None, {}, {"q": "generated"}], q_kind)
    cases = [mk_case(operation, "c%d" % k, headers=None if gen_h is None else dict(gen_h), query=None if gen_q is None else dict(gen_q)) for k in range(ncases)]
    saved = builder._iter_coverage_cases, builder.hypothesis.example
    attached = []
    builder._iter_coverage_cases = lambda op, modes, methods=None: iter(cases)

    class _Example:
        def __init__(self, **kw):
            attached.append(kw["case"])

        def __call__(self, test):
            return test

    builder.hypothesis.example = _Example
    storage = auths.AuthStorage() if with_auth else None
    if with_auth:
        class P:
            def get(self, case, ctx):
                return "tok"

            def set(self, case, data, ctx):
                case.cookies = {"auth": data}

        storage.register(refresh_interval=None)(P)
    try:
        builder.add_coverage(lambda case: None, operation, [], storage, {"headers": {"X-Key": "user", "Authorization": "Bearer t"}, "query": {"q": "Q"}})
    finally:
        builder._iter_coverage_cases, builder.hypothesis.example = saved
    if len(attached) != ncases:
        return False
    for case in attached:
        if case.headers is None or case.headers.get("X-Key") != "user" or case.headers.get("Authorization") != "Bearer t":
            return False
        if case.query is None or case.query.get("q") != "Q":
            return False
        if h_kind == 2 and case.headers.get("X-Other") != "o":
            return False
        if with_auth and (case.cookies or {}).get("auth") != "tok":
            return False
    return True



# ---------------------------------------------------------------------------------------------------------------
# a parameter fixed by the user (override, example, link) is taken out of what is generated - required or not

from schemathesis.generation import GenerationConfig
from schemathesis.specs.openapi import _hypothesis as oh

RAW_X = {"openapi": "3.0.2", "info": {"title": "t", "version": "1"}, "paths": {"/x": {"get": dict(_OK, parameters=[
    {"name": "rq", "in": "query", "required": True, "schema": {"type": "string"}}, {"name": "oq", "in": "query", "schema": {"type": "integer"}},
    {"name": "X-O", "in": "header", "schema": {"type": "string"}}, {"name": "X-R", "in": "header", "required": True, "schema": {"type": "string"}},
    {"name": "oc", "in": "cookie", "schema": {"type": "string"}}])}}}
OP_X = schemathesis.openapi.from_dict(RAW_X)["/x"]["GET"]
list(OP_X.iter_parameters())
DECLARED = {"query": [("rq", True), ("oq", False)], "header": [("X-O", False), ("X-R", True)], "cookie": [("oc", False)]}


class _Recorded:
    def __init__(self, schema):
        self.schema = schema

    def map(self, f):
        return self

    def filter(self, f):
        return self


def fixed_parameters_not_generated(loc: int, fix_first: bool, fix_second: bool, fix_unknown: bool) -> bool:
    """
    pre: 0 <= loc <= 2
    post: _
    """
    location = pick(["query", "header", "cookie"], loc)
    declared = DECLARED[location]
    fixed = [name for (name, _), on in zip(declared, (fix_first, fix_second)) if on] + (["zz"] if fix_unknown else [])
    oh._PARAMETER_STRATEGIES_CACHE.clear()
    try:
        strategy = oh.get_parameters_strategy(OP_X, lambda schema, *a, **kw: _Recorded(schema), location, GenerationConfig(), exclude=fixed)
    finally:
        oh._PARAMETER_STRATEGIES_CACHE.clear()
    if not isinstance(strategy, _Recorded):
        return False
    schema = strategy.schema
    for name, required in declared:
        if name in fixed:
            # the user's value must win: the generator may not produce this parameter at all (it would replace the fixed value)
            if name in schema["properties"] or name in schema.get("required", []):
                return False
        elif name not in schema["properties"] or (name in schema.get("required", [])) != required:
            return False
    return True



# ---------------------------------------------------------------------------------------------------------------
# the probes of the ignored_auth check strip credentials from THEIR requests only: the configured headers stay what the user configured

import types as _types

import schemathesis.generation as _gen
from requests.structures import CaseInsensitiveDict as _CID
from schemathesis.checks import CheckContext
from schemathesis.core.failures import Failure as _Failure
from schemathesis.core.transport import Response as _Response
from schemathesis.engine.recorder import ScenarioRecorder as _Recorder
from schemathesis.specs.openapi import checks as _oc
from schemathesis.transport.requests import REQUESTS_TRANSPORT

_COUNTER = [0]


def _randint(a, b):
    _COUNTER[0] += 1
    return a + _COUNTER[0]


_gen.RANDOM = _types.SimpleNamespace(randint=_randint)  # case ids of the probe cases: a counter instead of `random`
RAW_SEC = {"openapi": "3.0.2", "info": {"title": "t", "version": "1"},
           "components": {"securitySchemes": {"Key": {"type": "apiKey", "in": "header", "name": "X-API-Key"}, "Bearer": {"type": "http", "scheme": "bearer"}}},
           "paths": {"/k": {"get": dict(_OK, security=[{"Key": []}])}, "/b": {"get": dict(_OK, security=[{"Bearer": []}])}}}
SCHEMA_SEC = schemathesis.openapi.from_dict(RAW_SEC)
SEC_OPS = [(SCHEMA_SEC["/k"]["GET"], "X-API-Key"), (SCHEMA_SEC["/b"]["GET"], "Authorization")]


def probes_leave_configuration(op: int, status: int, probe1: int, probe2: int, extra: bool) -> bool:
    """
    pre: 0 <= op <= 1 and 200 <= status <= 299 and probe1 in (401, 200, 403) and probe2 in (401, 200)
    post: _
    """
    operation, name = pick(SEC_OPS, op)
    configured = {name: "SECRET"}
    if extra:
        configured["X-Trace"] = "t"
    original = dict(configured)
    sent = []
    answers = [probe1, probe2]

    def send(case, **kwargs):
        sent.append((dict(case.headers or {}), dict(kwargs.get("headers") or {})))
        probe_request = _types.SimpleNamespace(url="http://h.io/x", headers=_CID(case.headers or {}), _cookies={}, body=None, method="GET")
        return _Response(status_code=answers[min(len(sent), 2) - 1], headers={}, content=b"", request=probe_request, elapsed=0.1, verify=False)

    case = mk_case(operation, "c0", headers={name: "SECRET"})
    request = _types.SimpleNamespace(url="http://h.io/x", headers=_CID({name: "SECRET"}), _cookies={}, body=None, method="GET")
    response = _Response(status_code=status, headers={}, content=b"", request=request, elapsed=0.1, verify=False)
    ctx = CheckContext(override=None, auth=None, headers=_CID(configured), config={}, transport_kwargs={"session": "S", "headers": configured, "timeout": None}, recorder=_Recorder(label="x"))
    REQUESTS_TRANSPORT.send = send
    failed = False
    try:
        _oc.ignored_auth(ctx, response, case)
    except _Failure:
        failed = True
    finally:
        del REQUESTS_TRANSPORT.send
    # the user's configuration is what every later request of the run is built from: the probes must not have touched it
    if configured != original or case.headers != {name: "SECRET"}:
        return False
    # the probes themselves carry no valid credential (that is their purpose)
    for case_headers, extra_headers in sent:
        if case_headers.get(name) == "SECRET" or extra_headers.get(name) == "SECRET":
            return False
        if extra and extra_headers.get("X-Trace") != "t":
            return False
    if probe1 != 401:
        return failed and len(sent) == 1
    return len(sent) == 2 and failed == (probe2 != 401)



# ---------------------------------------------------------------------------------------------------------------
# examples phase: a user override wins over a schema example of the same location

from schemathesis.specs.openapi import examples as _ex


def _ex_op(ex_q: bool, ex_h: bool):
    q = {"name": "q", "in": "query", "required": True, "schema": {"type": "string"}}
    h = {"name": "X-Key", "in": "header", "schema": {"type": "string"}}
    if ex_q:
        q["example"] = "EXQ"
    if ex_h:
        h["example"] = "EXH"
    raw = {"openapi": "3.0.2", "info": {"title": "t", "version": "1"}, "paths": {"/e": {"get": dict(_OK, parameters=[q, h])}}}
    op = schemathesis.openapi.from_dict(raw)["/e"]["GET"]
    list(op.iter_parameters())
    return op


EX_OPS = {(a, b): _ex_op(a, b) for a in (False, True) for b in (False, True)}


class _Cases:
    calls: list = []

    def map(self, f):
        return self


def _openapi_cases(**kwargs):
    _Cases.calls.append(kwargs)
    return _Cases()


def examples_respect_overrides(ex_q: bool, ex_h: bool, set_q: bool, set_h: bool) -> bool:
    """
    post: _
    """
    operation = EX_OPS[(bool(ex_q), bool(ex_h))]
    kwargs = {}
    if set_q:
        kwargs["query"] = {"q": "USER"}
    if set_h:
        kwargs["headers"] = {"X-Key": "USER"}
    _Cases.calls = []
    saved = _ex.openapi_cases
    _ex.openapi_cases = _openapi_cases
    try:
        strategies = _ex.get_strategies_from_examples(operation, **kwargs)
    finally:
        _ex.openapi_cases = saved
    if len(strategies) != len(_Cases.calls) or bool(_Cases.calls) != (ex_q or ex_h):
        return False
    for call in _Cases.calls:
        # the user's value wins over the example of the same name; where the user configured nothing the example is sent unchanged
        if set_q and call.get("query") != {"q": "USER"}:
            return False
        if not set_q and ex_q and call.get("query") != {"q": "EXQ"}:
            return False
        if set_h and call.get("headers") != {"X-Key": "USER"}:
            return False
        if not set_h and ex_h and call.get("headers") != {"X-Key": "EXH"}:
            return False
    return True


OBLIGATIONS = [
    Ob(fn="examples_respect_overrides", props=["C14", "C17"], clause="in the examples phase a user override wins over a schema example of the same location; without an override the example is sent unchanged",
       timeout=200, functions=["schemathesis.specs.openapi.examples.get_strategies_from_examples", "schemathesis.specs.openapi.examples.extract_top_level", "schemathesis.specs.openapi.examples.produce_combinations"],
       symbolic="whether the query / header parameter carries an example, whether the user overrides the query / headers", bounds="2^4 combinations on one operation shape",
       stubs=["openapi_cases replaced by a recorder of its keyword arguments"]),
    Ob(fn="probes_leave_configuration", props=["C14"], clause="the probes that deliberately strip credentials strip them from their own requests only: the user's configured headers (from which every later request is built) are unchanged afterwards, other configured headers still travel with the probes",
       timeout=300, functions=["schemathesis.specs.openapi.checks.ignored_auth", "schemathesis.specs.openapi.checks.remove_auth", "schemathesis.specs.openapi.checks._remove_auth_from_explicit_headers",
                               "schemathesis.specs.openapi.checks._contains_auth", "schemathesis.specs.openapi.checks._set_auth_for_case"],
       symbolic="security scheme (apiKey header / http bearer), status of the original response (2xx), answers to the two probes, presence of another configured header", bounds="2 schemes x 100 statuses x 3 x 2 probe answers",
       stubs=["transport.send replaced by a recorder answering with scripted statuses", "the random source of case ids replaced by a counter"]),
    Ob(fn="fixed_parameters_not_generated", props=["C14", "C17"], clause="the user's value (and a schema example, which is sent unchanged) wins over any generated value of the same name: a parameter fixed by an override / example / link is removed from what the generator may produce, whether it is required or optional",
       timeout=200, functions=["schemathesis.specs.openapi._hypothesis.get_parameters_strategy", "schemathesis.specs.openapi._hypothesis.get_schema_for_location"],
       symbolic="location (query: required before optional / header: optional before required / cookie), which of its declared parameters and an undeclared name are fixed", bounds="3 locations x 2^3 subsets",
       stubs=["the strategy factory is a recorder of the schema it is given"], outside=["the merge of generated and fixed values in get_parameters_value (covered for the unit phase by strategy_kwargs)"]),
    Ob(fn="token_cache", props=["C14"], clause="an auth provider's token is fetched at most once per refresh interval and cache key - also when a concurrent worker refreshes the same key while this one waits for the lock; the returned token is the latest",
       timeout={"quick": 300, "thorough": 900}, params=range(4), functions=["schemathesis.auths.CachingAuthProvider.get", "schemathesis.auths.KeyedCachingAuthProvider._get_cache_entry",
                                                                           "schemathesis.auths.KeyedCachingAuthProvider._set_cache_entry"],
       symbolic="clock increments (6 reads), refresh interval, cache key of each of 3 lookups, keyed or plain cache, whether another worker refreshed during the lock wait (lookups 1 and 2)",
       bounds="3 lookups; 2 keys; clock steps 0..5; interval 1..6",
       stubs=["time.monotonic replaced by a symbolic non-decreasing integer clock", "threading.Lock replaced by a hook lock: one sequentialised interleaving per path (a completed refresh by another worker just before the lock is granted)"],
       outside=["other interleavings of real threads"]),
    Ob(fn="header_precedence", props=["C14"], clause="user-configured headers win over generated ones of the same name in any letter case; only User-Agent and the case-id header are added",
       timeout=150, functions=["schemathesis.transport.prepare.prepare_headers"], symbolic="spelling of the user's header name, what was generated, whether the user sets User-Agent", bounds="3 spellings x 3 generated shapes"),
    Ob(fn="strategy_kwargs", props=["C14"], clause="--set-* overrides reach generation exactly for the operations that declare the parameter; configured headers reach every operation",
       timeout=200, functions=["schemathesis.engine.phases.unit.get_strategy_kwargs", "schemathesis.generation.overrides.Override.for_operation", "schemathesis.generation.overrides._for_parameters"],
       symbolic="which of the 4 override kinds are set, which operation (declaring all / none / a path parameter), configured network headers (3)", bounds="3 operations"),
    Ob(fn="coverage_overrides", props=["C14"], clause="in the coverage phase user headers/overrides win over generated values and auth is set on every case",
       timeout=200, functions=["schemathesis.generation.hypothesis.builder.add_coverage", "schemathesis.auths.set_on_case", "schemathesis.auths.AuthStorage.set"],
       symbolic="what the case generator produced for headers/query (nothing, empty, clashing), auth provider present, number of cases", bounds="1-2 cases",
       stubs=["_iter_coverage_cases replaced by a fixed list of cases", "hypothesis.example replaced by a recorder"]),
]
