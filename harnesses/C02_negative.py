"""C02 - negative-mode cases are labelled consistently and filtered against the declared schema.

Real code executed symbolically: the body of the `openapi_cases` composite (reached through CompositeStrategy.definition and called with
a stub `draw`), generate_parameter, get_parameters_value, ValueContainer, any_negated_values, can_negate_path_parameters,
can_negate_headers; negative_schema's output filter (`not validator.is_valid`) and get_validator; MutationContext.mutate with the real
mutations driven by a stub `draw`.
Stubs: Hypothesis draws. `draw(strategy)` returns a scripted value (None / a value) per location, `sampled_from` draws pick by a symbolic
index, `ordered`/FeatureStrategy/booleans follow symbolic choices. That a drawn instance of the mutated schema violates the original
one is enforced at run time by the output filter, whose dialect is checked here.
"""
from vf.h import *
from vf import det
from vf.util import mk_case, pick, untraced

import hypothesis.strategies as st
from hypothesis.strategies._internal.featureflags import FeatureStrategy

import schemathesis
from schemathesis.core import NOT_SET
from schemathesis.core.control import SkipTest
from schemathesis.generation import GenerationConfig, GenerationMode
from schemathesis.generation.meta import ComponentKind
from schemathesis.specs.openapi import _hypothesis as oh
from schemathesis.specs.openapi import negative as neg
from schemathesis.specs.openapi.negative import mutations as mut

_OK = {"responses": {"200": {"description": "OK"}}}


def _p(name, loc, schema, required=True):
    return {"name": name, "in": loc, "required": required, "schema": schema}


RAW = {"openapi": "3.0.2", "info": {"title": "t", "version": "1"}, "paths": {
    # every part can be negated
    "/all/{id}": {"post": dict(_OK, parameters=[_p("id", "path", {"type": "integer"}), _p("q", "query", {"type": "integer"}),
                                                _p("X-N", "header", {"type": "integer"}), _p("c", "cookie", {"type": "integer"}, False)],
                               requestBody={"required": True, "content": {"application/json": {"schema": {"type": "object", "properties": {"a": {"type": "integer"}}, "required": ["a"]}}}})},
    # string-only headers and path: cannot be negated; body accepts anything
    "/str/{id}": {"post": dict(_OK, parameters=[_p("id", "path", {"type": "string"}), _p("X-S", "header", {"type": "string"})],
                               requestBody={"content": {"application/json": {"schema": {}}}})},
    # only the query can be negated
    "/q": {"get": dict(_OK, parameters=[_p("q", "query", {"type": "integer"})])},
    # nothing at all
    "/none": {"get": dict(_OK)},
    # string header (cannot be negated) next to an integer cookie (can), and the other way round
    "/ck": {"get": dict(_OK, parameters=[_p("X-S", "header", {"type": "string"}), _p("c", "cookie", {"type": "integer"})])},
    "/kc": {"get": dict(_OK, parameters=[_p("X-N", "header", {"type": "integer"}), _p("c", "cookie", {"type": "string"})])},
}}
SCHEMA = schemathesis.openapi.from_dict(RAW)
det.pin(oh)  # openapi_cases reads time.monotonic() twice


def _make_case(*, operation, **kwargs):
    # APIOperation.Case -> schema.make_case -> Case(...): same construction with a fixed id (the random id factory is very slow under tracing)
    body = kwargs.get("body")
    if kwargs.get("media_type") is None and body is not NOT_SET and body is not None:
        kwargs["media_type"] = operation._get_default_media_type()
    kwargs = {k: v for k, v in kwargs.items() if k not in ("method", "path")}
    return mk_case(operation, "case", **kwargs)


SCHEMA.make_case = _make_case
_real_can_negate = oh.can_negate
oh.can_negate = lambda schema: untraced(_real_can_negate, schema)  # hypothesis-jsonschema's canonicalish on a concrete schema: run natively
OPS = [SCHEMA["/all/{id}"]["POST"], SCHEMA["/str/{id}"]["POST"], SCHEMA["/q"]["GET"], SCHEMA["/none"]["GET"], SCHEMA["/ck"]["GET"], SCHEMA["/kc"]["GET"]]
for _op in OPS:
    list(_op.iter_parameters())
# which locations exist per operation / can be negated
HAS = [{"path", "query", "header", "cookie", "body"}, {"path", "header", "body"}, {"query"}, set(), {"header", "cookie"}, {"header", "cookie"}]
NEGATABLE = [{"path", "query", "header", "cookie", "body"}, set(), {"query"}, set(), {"cookie"}, {"header"}]
CASES_BODY = oh.openapi_cases(operation=OPS[0], generation_config=GenerationConfig()).wrapped_strategy.definition


class Marker:
    """Stands for a strategy built by the positive / negative factory."""

    def __init__(self, factory, location):
        self.factory, self.location = factory, location

    def map(self, f):
        return self

    def filter(self, f):
        return self

    def flatmap(self, f):
        return self

    def __or__(self, other):
        return self


def positive_factory(schema, operation_name, location, media_type, generation_config, custom_formats=None):
    return Marker("positive", location)


def negative_factory(schema, operation_name, location, media_type, generation_config, custom_formats=None):
    return Marker("negative", location)


class Rejected(Exception):
    pass


LABEL_OP = param(0) % 6  # operation shape: enumerated by the driver


def labels(op: int, only_negative: bool, d_path: bool, d_query: bool, d_header: bool, d_cookie: bool, d_body: bool) -> bool:
    """
    pre: op == LABEL_OP
    post: _
    """
    operation = pick(OPS, op)
    present = {"path": d_path, "query": d_query, "header": d_header, "cookie": d_cookie, "body": d_body}
    drawn = []

    def draw(strategy):
        if isinstance(strategy, Marker):
            drawn.append((strategy.location, strategy.factory))
            if strategy.location == "body":
                return {"a": 1} if present["body"] else NOT_SET
            return {"x": "v"} if present[strategy.location] else None
        # sampled_from(candidates) for the body variant / media type: take the first
        elements = getattr(strategy, "elements", None)
        if elements is not None:
            return elements[0]
        # st.none() for locations without parameters
        return None

    saved = (oh.make_positive_strategy, oh.make_negative_strategy, dict(oh.GENERATOR_MODE_TO_STRATEGY_FACTORY), oh.reject, oh.apply_hooks)
    oh.make_positive_strategy, oh.make_negative_strategy = positive_factory, negative_factory
    oh.GENERATOR_MODE_TO_STRATEGY_FACTORY[GenerationMode.POSITIVE] = positive_factory
    oh.GENERATOR_MODE_TO_STRATEGY_FACTORY[GenerationMode.NEGATIVE] = negative_factory

    def _reject():
        raise Rejected

    oh.reject = _reject
    oh.apply_hooks = lambda operation, context, hooks, strategy, location: strategy
    oh._PARAMETER_STRATEGIES_CACHE.clear()
    oh._BODY_STRATEGIES_CACHE.clear()
    config = GenerationConfig(modes=[GenerationMode.NEGATIVE] if only_negative else [GenerationMode.POSITIVE, GenerationMode.NEGATIVE])
    outcome, case = "case", None
    try:
        case = CASES_BODY(draw, operation=operation, generation_mode=GenerationMode.NEGATIVE, generation_config=config)
    except SkipTest:
        outcome = "skip"
    except Rejected:
        outcome = "reject"
    finally:
        oh.make_positive_strategy, oh.make_negative_strategy = saved[0], saved[1]
        oh.GENERATOR_MODE_TO_STRATEGY_FACTORY.clear()
        oh.GENERATOR_MODE_TO_STRATEGY_FACTORY.update(saved[2])
        oh.reject, oh.apply_hooks = saved[3], saved[4]
        oh._PARAMETER_STRATEGIES_CACHE.clear()
        oh._BODY_STRATEGIES_CACHE.clear()
    has, negatable = pick(HAS, op), pick(NEGATABLE, op)
    # which parts actually carry negated data: drawn from the negative factory AND present
    negated = {loc for loc, factory in drawn if factory == "negative" and (present[loc] if loc != "body" else True) and loc in has}
    # parts that cannot be negated must have been generated by the positive factory
    for loc, factory in drawn:
        if factory == "negative" and loc not in negatable:
            return False
    # a part that can be negated is handed to the negative generator (the operation is not skipped while something can be violated)
    for loc in negatable:
        if (loc, "negative") not in drawn and (loc, "positive") in drawn:
            return False
    if not negated:
        # nothing could be violated: reported as skipped (modes=[negative]) or discarded - never a case labelled negative
        return outcome == ("skip" if only_negative else "reject")
    if outcome != "case":
        return False
    meta = case.meta
    if meta.generation.mode != GenerationMode.NEGATIVE:
        return False
    kinds = {"path": ComponentKind.PATH_PARAMETERS, "query": ComponentKind.QUERY, "header": ComponentKind.HEADERS, "cookie": ComponentKind.COOKIES, "body": ComponentKind.BODY}
    labelled_negative = {loc for loc, kind in kinds.items() if kind in meta.components and meta.components[kind].mode == GenerationMode.NEGATIVE}
    # at least one part labelled negative; every part labelled negative is present and really came from the negative generator
    if not labelled_negative:
        return False
    for loc in labelled_negative:
        value = {"path": case.path_parameters, "query": case.query, "header": case.headers, "cookie": case.cookies, "body": case.body}[loc]
        if loc not in negated:
            return False
        if loc != "body" and value is None:
            return False
    # every part labelled positive came from the positive generator
    for loc, kind in kinds.items():
        if kind in meta.components and meta.components[kind].mode == GenerationMode.POSITIVE and (loc, "negative") in drawn and loc in negated:
            return False
    return True


class Recording:
    def __init__(self):
        self.filter_fn = None

    def flatmap(self, fn):
        fn({})
        return self

    def filter(self, fn):
        RECORDED.append(fn)
        return self


RECORDED: list = []


def _capture_filter(schema, location):
    RECORDED.clear()
    saved = neg.mutated, neg.from_schema
    neg.mutated = lambda keywords, non_keywords, location, media_type: Recording()
    neg.from_schema = lambda s, **kw: Recording()
    neg.get_validator.cache_clear()
    neg.split_schema.cache_clear()
    try:
        neg.negative_schema(schema, "op", location, None, GenerationConfig(), custom_formats={})
    finally:
        neg.mutated, neg.from_schema = saved
        neg.get_validator.cache_clear()
        neg.split_schema.cache_clear()
    return RECORDED[0]


def output_filter(n: int, minimum: int, exclusive: bool, location: int) -> bool:
    """
    pre: -50 <= n <= 50 and -50 <= minimum <= 50 and 0 <= location <= 1
    post: _
    """
    # the last line of defence: a generated value is kept as NEGATIVE only if it violates the DECLARED schema -
    # OpenAPI 2.0/3.0 meaning (JSON Schema draft 4: exclusiveMinimum is a boolean qualifying `minimum`)
    loc = pick(["query", "body"], location)
    sub = {"type": "integer", "minimum": minimum}
    if exclusive:
        sub["exclusiveMinimum"] = True
    schema = {"type": "object", "properties": {"v": sub}, "required": ["v"], "additionalProperties": False}
    keep = _capture_filter(schema, loc)
    conforms = n > minimum if exclusive else n >= minimum
    return keep({"v": n}) == (not conforms)


def output_filter_empty_query() -> bool:
    """
    post: _
    """
    keep = _capture_filter({"type": "object", "properties": {"v": {"type": "integer"}}, "required": ["v"]}, "query")
    # an empty query string is not a negative case even though `{}` violates `required`
    return keep({}) is False and keep({"v": "x"}) is True and keep({"v": 1}) is False


QUERY_VALUES = [None, [], [None], [None, None], "", "x", 0, False, [0], [None, "a"], ["", None], 1.5]


def empty_query_shapes(k1: int, k2: int, two: bool) -> bool:
    """
    pre: 0 <= k1 < len(QUERY_VALUES) and 0 <= k2 < len(QUERY_VALUES)
    post: _
    """
    query = {"a": pick(QUERY_VALUES, k1)}
    if two:
        query["b"] = pick(QUERY_VALUES, k2)

    def contributes(value):
        # what the HTTP client puts on the wire (requests: None values, also inside lists, are not sent; everything else is, '' as `a=`)
        items = value if isinstance(value, list) else [value]
        return any(item is not None for item in items)

    return neg.is_non_empty_query(query) == any(contributes(v) for v in query.values())


# ---------------------------------------------------------------------------------------------------------------
# mutation kernel

MSCHEMAS = [
    {"type": "object", "properties": {"a": {"type": "integer"}, "b": {"type": "string"}}, "required": ["a"], "additionalProperties": False},
    {"type": "integer", "minimum": 1, "maximum": 9},
    {"type": "string", "minLength": 2, "maxLength": 5},
    {"type": "array", "items": {"type": "integer"}, "minItems": 1},
    {"enum": ["x", "y"]},
    {"type": "object", "properties": {"a": {"type": "integer", "minimum": 0}}, "required": ["a"]},
]
MLOCS = ["query", "header", "path", "body"]
MSHAPE = param(0) % (len(MSCHEMAS) * len(MLOCS))


CMAX, CMAX2, PMAX, QUICK_FREE = tier((1, 0, 1, False), (3, 2, 5, True))


class Features:
    def __init__(self, bits):
        self.bits, self.names = bits, {}

    def is_enabled(self, name):
        if name not in self.names:
            self.names[name] = self.bits[len(self.names) % len(self.bits)]
        return self.names[name]


def mutate_kernel(c1: int, c2: int, c3: int, c4: int, b1: bool, b2: bool, b3: bool, perm: int) -> bool:
    """
    pre: all(0 <= c <= CMAX for c in (c1, c2)) and all(0 <= c <= CMAX2 for c in (c3, c4)) and 0 <= perm <= PMAX
    pre: QUICK_FREE or (not b2 and not b3)
    post: _
    """
    schema_idx, loc_idx = MSHAPE // len(MLOCS), MSHAPE % len(MLOCS)
    location = MLOCS[loc_idx]
    keywords = MSCHEMAS[schema_idx]
    if location != "body" and keywords.get("type") != "object":
        return True  # non-body locations are always object schemas
    import copy

    snapshot = copy.deepcopy(keywords)
    choices = [c1, c2, c3, c4]
    bools = [b1, b2, b3]
    features = {}
    state = {"i": 0, "b": 0}

    class Reject(Exception):
        pass

    def draw(strategy):
        name = type(strategy).__name__
        wrapped = getattr(strategy, "wrapped_strategy", strategy)
        if isinstance(wrapped, FeatureStrategy) or "FeatureStrategy" in repr(strategy):
            key = str(getattr(strategy, "key", "feature"))  # st.shared(FeatureStrategy(), key="mutations" | "properties")
            if key not in features:
                features[key] = Features(bools)
            return features[key]
        elements = getattr(wrapped, "elements", None)
        if elements is not None:
            k = choices[state["i"] % 4]
            state["i"] += 1
            return elements[k % len(elements)]
        if isinstance(strategy, Ordered):
            items = list(strategy.items)
            # a permutation chosen by `perm`
            out = []
            p = perm
            pool = items[:]
            while pool:
                out.append(pool.pop(p % len(pool)))
                p //= 2
            return out
        r = repr(strategy)
        if r.startswith("booleans"):
            v = bools[state["b"] % 3]
            state["b"] += 1
            return v
        if r.startswith("just("):
            return wrapped.value if hasattr(wrapped, "value") else None
        raise AssertionError("unexpected strategy %s" % r)

    class Ordered:
        def __init__(self, items):
            self.items = items

    saved = mut.ordered, mut.reject
    mut.ordered = lambda items, unique_by=None: Ordered(items)

    def _reject():
        raise Reject

    mut.reject = _reject
    ctx = mut.MutationContext(keywords=keywords, non_keywords={}, location=location, media_type="application/json" if location == "body" else None)
    try:
        new = ctx.mutate(draw)
    except Reject:
        return keywords == snapshot
    except AssertionError:
        return True  # a strategy kind this stub does not interpret: outside the claim
    finally:
        mut.ordered, mut.reject = saved
    # the validated, cached original schema is never modified (no aliasing into it)
    if keywords != snapshot:
        return False
    # a SUCCESS really changed a constraint
    stripped = {k: v for k, v in new.items() if k not in ("propertyNames", "minProperties", "minItems", "additionalProperties")}
    base = {k: v for k, v in snapshot.items() if k not in ("additionalProperties",)}
    if stripped == base and new.get("additionalProperties") == snapshot.get("additionalProperties"):
        return False
    # parameters of non-body locations stay objects (OpenAPI semantics)
    if location != "body" and new.get("type") != "object":
        return False
    return True


OBLIGATIONS = [
    Ob(fn="labels", clause="a negative case is labelled negative, at least one part is labelled negative, every part labelled negative is present and came from the negative generator, parts that cannot be negated are generated positively; with nothing to violate the operation is skipped (or the draw discarded), never sent as valid-but-negative",
       timeout={"quick": 300, "thorough": 600}, params=range(6), param_names=["everything negatable", "string-only path/header, {} body", "query only", "no inputs", "string header + integer cookie", "integer header + string cookie"],
       functions=["schemathesis.specs.openapi._hypothesis.openapi_cases (composite body)", "schemathesis.specs.openapi._hypothesis.generate_parameter",
                                                                         "schemathesis.specs.openapi._hypothesis.get_parameters_value", "schemathesis.specs.openapi._hypothesis.any_negated_values",
                                                                         "schemathesis.specs.openapi._hypothesis.can_negate_path_parameters", "schemathesis.specs.openapi._hypothesis.can_negate_headers",
                                                                         "schemathesis.specs.openapi._hypothesis.ValueContainer"],
       symbolic="operation (6 shapes: everything negatable / string-only headers+path and `{}` body / query only / nothing / string header + integer cookie / integer header + string cookie), modes [negative] or [positive, negative], presence of a drawn value per location",
       bounds="6 operations x 2^5 presence patterns x 2 mode lists",
       stubs=["draw() returns scripted values; strategy factories replaced by markers naming the generator that built them", "hooks bypassed", "can_negate (hypothesis-jsonschema canonicalish on concrete schemas) evaluated outside tracing", "clock and case id pinned"],
       outside=["that a drawn instance of a mutated schema is invalid (run-time filter; its dialect is checked by output_filter)"]),
    Ob(fn="output_filter", clause="every part labelled negative violates the declared schema: the output filter judges by the declared (draft 4) meaning, incl. boolean exclusiveMinimum",
       timeout={"quick": 300, "thorough": 600}, functions=["schemathesis.specs.openapi.negative.negative_schema", "schemathesis.specs.openapi.negative.get_validator"],
       symbolic="the generated number, the declared minimum, the exclusive flag, query or body", bounds="-50..50", stubs=["mutated()/from_schema() replaced by recorders to capture the filter"]),
    Ob(fn="empty_query_shapes", clause="a query that puts nothing on the wire (all values null, empty lists, lists of nulls) is never kept as a negative case; any other is judged non-empty",
       timeout=120, functions=["schemathesis.specs.openapi.negative.is_non_empty_query"], symbolic="one or two query parameters, each one of 12 value shapes (null, [], [null], [null, null], '', text, 0, false, [0], mixed lists, float)",
       bounds="<= 2 parameters x 12 shapes", stubs=["urllib.parse.urlencode on the concrete pairs"]),
    Ob(fn="output_filter_empty_query", clause="an empty query string is never a negative case", timeout=60, functions=["schemathesis.specs.openapi.negative.is_non_empty_query"],
       symbolic="(none)", bounds="3 concrete values"),
    Ob(fn="mutate_kernel", clause="a successful mutation really changes a constraint, never modifies the original schema, and keeps non-body locations object-typed",
       tiers=("thorough",), timeout={"quick": 200, "thorough": 400}, params={"quick": [0, 3, 7, 11, 15, 19, 20, 22, 23], "thorough": range(len(MSCHEMAS) * len(MLOCS))},
       functions=["schemathesis.specs.openapi.negative.mutations.MutationContext.mutate",
                                                                                                       "schemathesis.specs.openapi.negative.mutations.remove_required_property / negate_constraints / change_properties / change_type / change_items"],
       symbolic="every draw() choice: sampled_from indices, feature flags, booleans, the order of mutations", bounds={"quick": "9 (schema, location) shapes; first two sampled_from choices in {0,1}, one feature flag, 2 orders", "thorough": "6 schemas x 4 locations; 4 index choices, 3 booleans, 6 orders"},
       stubs=["draw() interprets sampled_from / FeatureStrategy / booleans / just / ordered from symbolic choices"]),
]
