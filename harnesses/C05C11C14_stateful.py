"""C05 / C11 / C14 - the stateful phase's state-machine loop: suites are opened and closed, failures and errors are reported,
the loop terminates, --set-* overrides reach every stateful request.

Real code executed symbolically: schemathesis.engine.phases.stateful._executor.execute_state_machine_loop (the whole loop, the
_InstrumentedStateMachine hooks setup / before_call / teardown), StatefulContext, Override.for_operation.
Stub: the Hypothesis-driven base state machine: `run()` follows a symbolic script of outcomes, one scenario per run.
"""
from vf.h import *
from vf import det
from vf.util import mk_case, pick

import queue
import types
import unittest

import hypothesis.errors

import schemathesis
from schemathesis.core.failures import Failure, FailureGroup
from schemathesis.engine import Status, events
from schemathesis.engine.config import EngineConfig, ExecutionConfig
from schemathesis.engine.context import EngineContext
from schemathesis.engine.phases.stateful import _executor as sx
from schemathesis.engine.recorder import ScenarioRecorder
from schemathesis.generation.overrides import Override

import schemathesis.engine.context as _ctxmod

det.pin(events, sx, _ctxmod)
sx.current_build_context = lambda: types.SimpleNamespace(is_final=False)

_OK = {"responses": {"200": {"description": "OK"}}}
_Q = [{"name": "expand", "in": "query", "schema": {"type": "string"}}, {"name": "X-Tenant", "in": "header", "schema": {"type": "string"}}]
RAW = {"openapi": "3.0.2", "info": {"title": "t", "version": "1"},
       "paths": {"/users": {"get": dict(_OK, parameters=_Q)}, "/ping": {"get": dict(_OK)}}}
SCHEMA = schemathesis.openapi.from_dict(RAW)
OPS = [SCHEMA["/users"]["GET"], SCHEMA["/ping"]["GET"]]
_ = [list(op.iter_parameters()) for op in OPS]
SETTINGS = ExecutionConfig().hypothesis_settings
OUTCOMES = ["ok", "FailureGroup", "Flaky", "KeyboardInterrupt", "SkipTest", "Exception", "Unsatisfiable"]


class FlagEvent:
    def __init__(self, flip):
        self.flip, self.reads, self.value = flip, 0, False

    def is_set(self):
        if not self.value and self.flip >= 0 and self.reads >= self.flip:
            self.value = True
        self.reads += 1
        return self.value

    def set(self):
        self.value = True


def make_base(script, cases, seen):
    """A base state machine class whose run() plays one scenario per invocation, following `script`."""

    class Base:
        runs = 0

        def __init__(self):
            self.recorder = ScenarioRecorder(label="Stateful tests")

        def setup(self):
            pass

        def teardown(self):
            pass

        def before_call(self, case):
            seen.append((case.operation.label, dict(case.query or {}), dict(case.headers or {})))

        @classmethod
        def run(cls, settings=None):
            k = Base.runs
            Base.runs += 1
            outcome = script[k] if k < len(script) else "ok"
            machine = cls()
            machine.setup()
            try:
                for case in cases:
                    machine.before_call(case)
                if outcome == "FailureGroup":
                    raise FailureGroup([Failure(operation="GET /users", title="t%d" % k, message="m")])
                if outcome == "Flaky":
                    raise hypothesis.errors.Flaky("flaky")
                if outcome == "KeyboardInterrupt":
                    raise KeyboardInterrupt
                if outcome == "SkipTest":
                    raise unittest.case.SkipTest("no examples")
                if outcome == "Exception":
                    raise RuntimeError("inner error")
                if outcome == "Unsatisfiable":
                    raise hypothesis.errors.Unsatisfiable("u")
            finally:
                machine.teardown()

    return Base


O3MAX = tier(1, 7)  # quick: the third run always succeeds


def _drain(q):
    out = []
    while not q.empty():
        out.append(q.get())
    return out


def stateful_loop(o2: int, o3: int, flip: int, maxf: int, failures_counted: int) -> bool:
    """
    pre: 0 <= o2 < 7 and 0 <= o3 < O3MAX and -1 <= flip <= 3 and 0 <= maxf <= 1 and 0 <= failures_counted <= 1
    post: _
    """
    det.reset()
    script = [OUTCOMES[param(0) % 7], pick(OUTCOMES, o2), pick(OUTCOMES, o3), "ok"]
    config = EngineConfig(execution=ExecutionConfig(max_failures=maxf or None, hypothesis_settings=SETTINGS))
    engine = EngineContext(schema=SCHEMA, stop_event=FlagEvent(flip), config=config)
    for _ in range(failures_counted):
        engine.control.count_failure()
    q = queue.Queue()
    base = make_base(script, [], [])
    sx.execute_state_machine_loop(state_machine=base, event_queue=q, engine=engine)  # must terminate and not raise
    out = _drain(q)
    # every suite is opened once and closed exactly once, with matching ids, scenarios inside their suite
    open_suite, open_scenario = None, None
    suites = []
    for e in out:
        if isinstance(e, events.SuiteStarted):
            if open_suite is not None:
                return False
            open_suite = e.id
        elif isinstance(e, events.SuiteFinished):
            if open_suite != e.id or open_scenario is not None:
                return False
            suites.append(e.status)
            open_suite = None
        elif isinstance(e, events.ScenarioStarted):
            if open_suite is None or open_scenario is not None or e.suite_id != open_suite:
                return False
            open_scenario = e.id
        elif isinstance(e, events.ScenarioFinished):
            if open_scenario != e.id:
                return False
            open_scenario = None
        elif isinstance(e, (events.NonFatalError, events.Interrupted)):
            if open_suite is None:
                return False
    if open_suite is not None or open_scenario is not None or not suites:
        return False
    if PROP in ("C05", ""):
        # failures and inner errors are never lost: the suite in which they happen says so
        runs = base.runs
        for k in range(min(runs, len(suites))):
            outcome = script[k]
            if outcome in ("FailureGroup", "Flaky") and suites[k] != Status.FAILURE:
                return False
            if outcome == "Exception":
                if suites[k] != Status.ERROR or not any(isinstance(e, events.NonFatalError) for e in out):
                    return False
            if outcome == "KeyboardInterrupt" and (suites[k] != Status.INTERRUPTED or not engine.control.stop_event.value):
                return False
    return True


def stateful_override(q_kind: int, h_kind: int, op: int) -> bool:
    """
    pre: 0 <= q_kind <= 2 and 0 <= h_kind <= 2 and 0 <= op <= 1
    post: _
    """
    # --set-query / --set-header reach every request of the stateful phase whose operation declares the parameter, the user's value winning
    det.reset()
    override = Override(query={"expand": "full"}, headers={"X-Tenant": "acme"}, cookies={}, path_parameters={})
    config = EngineConfig(execution=ExecutionConfig(hypothesis_settings=SETTINGS), override=override)
    engine = EngineContext(schema=SCHEMA, stop_event=FlagEvent(-1), config=config)
    operation = pick(OPS, op)
    query = pick([None, {}, {"expand": "generated", "other": "1"}], q_kind)
    headers = pick([None, {}, {"X-Tenant": "generated"}], h_kind)
    case = mk_case(operation, "c0", query=query, headers=headers)
    seen = []
    base = make_base(["ok"], [case], seen)
    sx.execute_state_machine_loop(state_machine=base, event_queue=queue.Queue(), engine=engine)
    if len(seen) != 1:
        return False
    label, got_query, got_headers = seen[0]
    if op == 0:
        if got_query.get("expand") != "full" or got_headers.get("X-Tenant") != "acme":
            return False
        if q_kind == 2 and got_query.get("other") != "1":
            return False
    else:
        # overrides apply only to declared parameters
        if got_query.get("expand") == "full" or got_headers.get("X-Tenant") == "acme":
            return False
    return True


_F = ["schemathesis.engine.phases.stateful._executor.execute_state_machine_loop", "schemathesis.engine.phases.stateful.context.StatefulContext",
      "schemathesis.generation.overrides.Override.for_operation"]
_ST = ["the Hypothesis-driven base state machine is replaced by a stub whose run() plays a scripted outcome", "current_build_context() stubbed (is_final=False)",
       "clock/uuid pinned", "threading.Event replaced by a flag flipping at a symbolic read"]
OBLIGATIONS = [
    Ob(fn="stateful_loop", props=("C05", "C11"),
       clause="C11: every suite/scenario of the stateful phase is opened and closed exactly once with matching ids and the loop terminates; C05: a failing/erroring run is reported by its suite status (and an error event)",
       timeout={"quick": 250, "thorough": 500}, params=range(7), param_names=["first run: " + o for o in OUTCOMES], functions=_F[:2],
       symbolic="outcome of the 2nd (and, thorough, 3rd) state-machine run (7 kinds; 1st enumerated), stop-flag flip read, max_failures, a failure already counted",
       bounds={"quick": "<= 2 re-runs", "thorough": "<= 3 re-runs"}, stubs=_ST, outside=["real Hypothesis state-machine execution, links", "the consumer thread of stateful.execute"]),
    Ob(fn="stateful_override", props=("C14",),
       clause="parameter overrides are present, with the user's value winning, on every stateful request whose operation declares them - also when nothing was generated for that location",
       timeout=200, functions=_F, symbolic="what was generated for query / headers (nothing, empty, a clashing value), which operation", bounds="3 x 3 generated shapes x 2 operations", stubs=_ST),
]
