"""C19 - hooks and auth providers apply exactly where their own filters say, whatever was registered before/after.

Real code (executed symbolically): schemathesis.hooks.to_filterable_hook (register / decorator / init_filter_set closures),
HookDispatcher.register_hook_with_name / unregister / get_all_by_name / apply_to_container, _should_skip_hook, apply_to_all_dispatchers;
schemathesis.filters.FilterSet.include/exclude/match, attach_filter_chain, Matcher/Filter;
schemathesis.auths.AuthStorage.register / apply / set_from_requests / set, SelectiveAuthProvider.
Symbolic: the registration history - for each step its decorator form, its filter values, which earlier hook an
unregistration removes - and the operation the result is evaluated against.
"""
from vf.h import *
from vf.util import mk_case, pick, stable_hash

import schemathesis
from schemathesis import auths, hooks
from schemathesis.hooks import HookContext, HookDispatcher, HookScope

_OK = {"responses": {"200": {"description": "OK"}}}
RAW = {
    "openapi": "3.0.2",
    "info": {"title": "t", "version": "1"},
    "paths": {"/a": {"get": dict(_OK), "post": dict(_OK)}, "/b": {"get": dict(_OK), "put": dict(_OK)}},
}
SCHEMA = schemathesis.openapi.from_dict(RAW)
schemathesis.filters.hash = stable_hash  # Matcher._hash = hash(label): labels are concrete here
OPS = [("/a", "GET"), ("/a", "POST"), ("/b", "GET"), ("/b", "PUT")]
OPERATIONS = [SCHEMA[p][m] for p, m in OPS]
METHODS = ["GET", "POST"]
PATHS = ["/a", "/b"]

# decorator forms
FORMS = [
    "plain: @d.hook",
    "apply_to(method=M): @d.hook.apply_to(method=M)",
    "skip_for(method=M): @d.hook.skip_for(method=M)",
    "chained: @d.hook.apply_to(method=M).skip_for(path=P)",
    "named plain: @d.hook('map_query')",
    "named + trailing filter: @d.hook('map_query').apply_to(method=M)",
    "leading filter + named: @d.hook.apply_to(method=M)('map_query')",
    "unregister an earlier hook",
    "unregister an earlier hook and register the same function again without filters",
]
NFORMS = len(FORMS)
N = tier(2, 3)
FIRST = param(0)  # form of the first step: enumerated by the driver


def make_hook(k: int, named: bool = False):
    def map_query(context, query):
        return ("hook", k)

    if named:  # registered under an explicit hook name: the function's own name is something else
        map_query.__name__ = "custom_%d" % k
    map_query.step = k
    return map_query


class Recorder:
    """Stands in for a Hypothesis strategy: records which hooks `apply_to_container` attaches."""

    def __init__(self):
        self.applied = []

    def map(self, fn):
        # identify hooks by their `step` tag: under CrossHair functools.partial wraps the function (functools.update_wrapper keeps the tag)
        self.applied.append(getattr(fn, "func", fn).step)
        return self

    filter = map
    flatmap = map


def expected_applies(form: int, m: int, p: int, op: int) -> bool:
    path, method = OPS[op]
    if form in (0, 4):
        return True
    if form in (1, 5, 6):
        return method == METHODS[m]
    if form == 2:
        return method != METHODS[m]
    if form == 3:
        return method == METHODS[m] and path != PATHS[p]
    return True


def do_step(d: HookDispatcher, k: int, form: int, m: int, p: int, registered: list):
    method = pick(METHODS, m)
    path = pick(PATHS, p)
    fn = make_hook(k, named=form in (4, 5, 6))
    if form == 0:
        d.register(fn)
    elif form == 1:
        d.register.apply_to(method=method)(fn)
    elif form == 2:
        d.register.skip_for(method=method)(fn)
    elif form == 3:
        d.register.apply_to(method=method).skip_for(path=path)(fn)
    elif form == 4:
        d.register("map_query")(fn)
    elif form == 5:
        d.register("map_query").apply_to(method=method)(fn)
    elif form == 6:
        d.register.apply_to(method=method)("map_query")(fn)
    elif form == 8:
        # the same function object comes back without filters: it then applies everywhere, whatever filters it carried before
        if registered:
            victim = registered[0]
            d.unregister(victim[0])
            registered.remove(victim)
            if victim[1] in (4, 5, 6):
                d.register("map_query")(victim[0])
                registered.append((victim[0], 4, 0, 0))
            else:
                d.register(victim[0])
                registered.append((victim[0], 0, 0, 0))
        return
    else:
        # unregister: `m` selects which still-registered hook (if any)
        if registered:
            victim = registered[0] if (m == 0 or len(registered) == 1) else registered[1]
            d.unregister(victim[0])
            registered.remove(victim)
        return
    registered.append((fn, form, m, p))


# One registration step = one "variant": (form, method index, path index)
VARIANTS = [
    (0, 0, 0), (1, 0, 0), (1, 1, 0), (2, 0, 0), (2, 1, 0), (3, 0, 0), (3, 1, 1), (4, 0, 0), (5, 0, 0), (5, 1, 0), (6, 0, 0), (6, 1, 0),
    (7, 0, 0), (7, 1, 0), (8, 0, 0),
]
VNAMES = ["%s [M=%s P=%s]" % (FORMS[f], METHODS[m], PATHS[p]) for f, m, p in VARIANTS]
NV = len(VARIANTS)


def _hooks_ok(variants, op: int, scope: int = 1) -> bool:
    d = HookDispatcher(scope=[HookScope.GLOBAL, HookScope.SCHEMA, HookScope.TEST][scope])
    registered: list = []
    for k in range(len(variants)):
        form, m, p = pick(VARIANTS, variants[k])
        do_step(d, k, form, m, p, registered)
    operation = pick(OPERATIONS, op)
    ctx = HookContext(operation=operation)
    rec = Recorder()
    d.apply_to_container(rec, "query", ctx)
    live = d.get_all_by_name("map_query")
    if len(live) != len(registered):
        return False
    for fn, form, m, p in registered:
        if not any(h is fn for h in live):
            return False
        applied = any(k == fn.step for k in rec.applied)
        if applied != expected_applies(form, m, p, op):
            return False
    # nothing else is applied
    return all(any(k == fn.step for fn, _, _, _ in registered) for k in rec.applied)


def hook_history_2(v2: int, op: int) -> bool:
    """
    pre: 0 <= v2 < NV and 0 <= op < len(OPS)
    post: _
    """
    return _hooks_ok([FIRST, v2], op)


def hook_history_3(v2: int, v3: int, op: int) -> bool:
    """
    pre: 0 <= v2 < NV and 0 <= v3 < NV and 0 <= op < len(OPS)
    post: _
    """
    return _hooks_ok([FIRST, v2, v3], op)


SCOPE_VARIANTS = [(0, 0, 0), (1, 0, 0), (1, 1, 0), (2, 0, 0), (2, 1, 0)]


def hook_scopes(vs: int, vt: int, op: int) -> bool:
    """
    pre: 0 <= vs < 5 and 0 <= vt < 5 and 0 <= op < len(OPS)
    post: _
    """
    # one hook on each of the global / schema / test dispatchers: all applicable ones are applied, in that order
    g = HookDispatcher(scope=HookScope.GLOBAL)
    s = HookDispatcher(scope=HookScope.SCHEMA)
    t = HookDispatcher(scope=HookScope.TEST)
    regs = []
    for d, v in ((g, FIRST % 5), (s, vs), (t, vt)):
        f, m, p = pick(SCOPE_VARIANTS, v)
        r: list = []
        do_step(d, len(regs), f, m, p, r)
        regs.append(r[0])
    operation = pick(OPERATIONS, op)
    old_global, old_schema = hooks.GLOBAL_HOOK_DISPATCHER, operation.schema.hooks
    hooks.GLOBAL_HOOK_DISPATCHER = g
    operation.schema.hooks = s
    try:
        rec = Recorder()
        hooks.apply_to_all_dispatchers(operation, HookContext(operation=operation), t, rec, "query")
    finally:
        hooks.GLOBAL_HOOK_DISPATCHER = old_global
        operation.schema.hooks = old_schema
    want = [fn.step for fn, form, m, p in regs if expected_applies(form, m, p, op)]
    return rec.applied == want



from schemathesis.specs.openapi import _hypothesis as _oh


def hooks_between_examples(e1: int, e2: int, e3: int, op: int) -> bool:
    """
    pre: all(0 <= e <= 3 for e in (e1, e2, e3)) and 0 <= op < len(OPS)
    post: _
    """
    # data is generated many times for one operation (same cached base strategy): a hook registered or unregistered between two
    # examples is (not) applied from the next example on - on every scope
    g = HookDispatcher(scope=HookScope.GLOBAL)
    s = HookDispatcher(scope=HookScope.SCHEMA)
    t = HookDispatcher(scope=HookScope.TEST)
    dispatchers = [g, s, t]
    operation = pick(OPERATIONS, op)
    old_global, old_schema = hooks.GLOBAL_HOOK_DISPATCHER, operation.schema.hooks
    hooks.GLOBAL_HOOK_DISPATCHER = g
    operation.schema.hooks = s
    base = Recorder()  # the base strategy of the query: built once per operation and cached
    live: list = []
    try:
        for k, event in enumerate((e1, e2, e3)):
            if event == 3:
                if live:
                    d, fn = live.pop(0)
                    d.unregister(fn)
            else:
                fn = make_hook(k)
                pick(dispatchers, event).register(fn)
                live.append((pick(dispatchers, event), fn))
            base.applied = []
            _oh.apply_hooks(operation, HookContext(operation=operation), t, base, "query")
            want = [fn.step for d in dispatchers for dd, fn in live if dd is d]
            if base.applied != want:
                return False
    finally:
        hooks.GLOBAL_HOOK_DISPATCHER = old_global
        operation.schema.hooks = old_schema
    return True


# ---------------------------------------------------------------------------------------------------------------
# auth providers

AFORMS = [
    "@storage() plain",
    "@storage().apply_to(method=M)",
    "@storage().skip_for(method=M)",
    "@storage().apply_to(method=M).skip_for(path=P)",
    "storage.set_from_requests(auth).apply_to(method=M)",
    "storage.set_from_requests(auth) plain",
]


def make_provider(k: int):
    class Provider:
        def get(self, case, context):
            return "token-%d" % k

        def set(self, case, data, context):
            case.headers = {"Authorization": data}

    return Provider


class ReqAuth:
    def __init__(self, k):
        self.k = k


def expected_auth(form: int, m: int, p: int, op: int) -> bool:
    path, method = OPS[op]
    if form in (0, 5):
        return True
    if form in (1, 4):
        return method == METHODS[m]
    if form == 2:
        return method != METHODS[m]
    return method == METHODS[m] and path != PATHS[p]


def auth_step(storage, k: int, form: int, m: int, p: int) -> None:
    method = pick(METHODS, m)
    path = pick(PATHS, p)
    if form == 0:
        storage.register(refresh_interval=None)(make_provider(k))
    elif form == 1:
        storage.register(refresh_interval=None).apply_to(method=method)(make_provider(k))
    elif form == 2:
        storage.register(refresh_interval=None).skip_for(method=method)(make_provider(k))
    elif form == 3:
        storage.register(refresh_interval=None).apply_to(method=method).skip_for(path=path)(make_provider(k))
    elif form == 4:
        storage.set_from_requests(ReqAuth(k)).apply_to(method=method)
    else:
        storage.set_from_requests(ReqAuth(k))


def _winner(case):
    if case._auth is not None:
        return case._auth.k
    if case.headers is not None:
        return int(case.headers["Authorization"][len("token-"):])
    return None


AVARIANTS = [(0, 0, 0), (1, 0, 0), (1, 1, 0), (2, 0, 0), (2, 1, 0), (3, 0, 0), (3, 1, 1), (4, 0, 0), (4, 1, 0), (5, 0, 0)]
AVNAMES = ["%s [M=%s P=%s]" % (AFORMS[f], METHODS[m], PATHS[p]) for f, m, p in AVARIANTS]
NAV = len(AVARIANTS)


def _auth_ok(variants, op: int) -> bool:
    storage = auths.AuthStorage()
    steps = [pick(AVARIANTS, v) for v in variants]
    for k, (f, m, p) in enumerate(steps):
        auth_step(storage, k, f, m, p)
    operation = pick(OPERATIONS, op)
    case = mk_case(operation, "c0")
    storage.set(case, auths.AuthContext(operation=operation, app=None))
    expected = None
    for k, (f, m, p) in enumerate(steps):
        if expected_auth(f, m, p, op):
            expected = k
            break
    got = _winner(case)
    return got == expected and case._has_explicit_auth == (expected is not None)


def auth_history_2(v2: int, op: int) -> bool:
    """
    pre: 0 <= v2 < NAV and 0 <= op < len(OPS)
    post: _
    """
    return _auth_ok([FIRST % NAV, v2], op)


def auth_history_3(v2: int, v3: int, op: int) -> bool:
    """
    pre: 0 <= v2 < NAV and 0 <= v3 < NAV and 0 <= op < len(OPS)
    post: _
    """
    return _auth_ok([FIRST % NAV, v2, v3], op)


def auth_test_scope(f: int, m: int, p: int, op: int, schema_level: bool) -> bool:
    """
    pre: 0 <= f <= 3 and 0 <= m <= 1 and 0 <= p <= 1 and 0 <= op < len(OPS)
    post: _
    """
    # @schema.auth(Provider) on one test function, with the same filter forms; optionally a schema-level provider underneath
    method = pick(METHODS, m)
    path = pick(PATHS, p)
    storage = auths.AuthStorage()
    deco = storage.apply(make_provider(1), refresh_interval=None)
    if f == 1:
        deco = deco.apply_to(method=method)
    elif f == 2:
        deco = deco.skip_for(method=method)
    elif f == 3:
        deco = deco.apply_to(method=method).skip_for(path=path)

    def test():
        pass

    deco(test)
    test_storage = auths.AuthStorageMark.get(test)
    operation = pick(OPERATIONS, op)
    old = operation.schema.auth
    operation.schema.auth = auths.AuthStorage()
    if schema_level:
        operation.schema.auth.register(refresh_interval=None)(make_provider(0))
    try:
        case = mk_case(operation, "c0")
        auths.set_on_case(case, auths.AuthContext(operation=operation, app=None), test_storage)
    finally:
        operation.schema.auth = old
    expected = 1 if expected_auth(f, m, p, op) else None
    return _winner(case) == expected and storage.providers == []


_HF = ["schemathesis.hooks.to_filterable_hook", "schemathesis.hooks.HookDispatcher.register_hook_with_name", "schemathesis.hooks.HookDispatcher.unregister",
       "schemathesis.hooks.HookDispatcher.apply_to_container", "schemathesis.hooks._should_skip_hook", "schemathesis.hooks.apply_to_all_dispatchers",
       "schemathesis.filters.FilterSet.include/exclude/match/_add_filter", "schemathesis.filters.attach_filter_chain", "schemathesis.filters.by_value"]
_AF = ["schemathesis.auths.AuthStorage.register", "schemathesis.auths.AuthStorage.apply", "schemathesis.auths.AuthStorage.set_from_requests",
       "schemathesis.auths.AuthStorage._set_provider", "schemathesis.auths.AuthStorage.set", "schemathesis.auths.SelectiveAuthProvider.get",
       "schemathesis.auths.set_on_case", "schemathesis.filters.FilterSet.match"]
OBLIGATIONS = [
    Ob(fn="hook_history_2", clause="each live hook applies iff its own filters match, whatever was registered/unregistered before or after and whatever decorator form was used",
       timeout={"quick": 90, "thorough": 300}, params=range(NV), param_names=["first step: " + v for v in VNAMES], functions=_HF,
       symbolic="variant of step 2 (14 variants: 7 decorator forms x filter values, unregister of either earlier hook), evaluated operation (4)",
       bounds="2 steps on one schema-scope dispatcher; first step enumerated by the driver; filter values from 2 methods x 2 paths; 4 operations",
       stubs=["Hypothesis strategy replaced by a recorder of map/filter/flatmap calls", "schemathesis.filters.hash evaluated outside tracing (concrete labels)"], outside=["regex/tag/operation_id filter kinds (C07 covers the matchers)", "hook kinds other than map_query"]),
    Ob(fn="hook_history_3", clause="as above, histories of three steps", tiers=("thorough",), timeout=400, params=range(NV),
       param_names=["first step: " + v for v in VNAMES], functions=_HF, symbolic="variants of steps 2 and 3, evaluated operation",
       bounds="3 steps on one schema-scope dispatcher", stubs=["Hypothesis strategy replaced by a recorder"]),
    Ob(fn="hook_scopes", clause="hooks of all applicable scopes (global, schema, test) are all applied, each under its own filter",
       timeout={"quick": 90, "thorough": 300}, params=range(5), functions=_HF, symbolic="filter variant of the schema- and test-scope hooks (global one enumerated); evaluated operation",
       bounds="one hook per scope; 5 filter variants each; 4 operations", stubs=["GLOBAL_HOOK_DISPATCHER and schema.hooks swapped for fresh dispatchers during the call"]),
    Ob(fn="hooks_between_examples", clause="registering or unregistering a hook between two generated examples of the same operation takes effect from the next example on, on the global, schema and test scope",
       timeout=300, functions=["schemathesis.specs.openapi._hypothesis.apply_hooks", "schemathesis.hooks.apply_to_all_dispatchers", "schemathesis.hooks.HookDispatcher.apply_to_container"] + _HF[:3],
       symbolic="three events (register on global / schema / test scope, or unregister the oldest live hook), each followed by the generation of an example; the operation", bounds="3 events x 4 kinds, 4 operations",
       stubs=["the cached base strategy is a recorder of the hooks attached to it"]),
    Ob(fn="auth_history_2", clause="the auth applied to an operation is the first registered provider whose own filters match it",
       timeout={"quick": 90, "thorough": 300}, params=range(NAV), param_names=["first: " + v for v in AVNAMES], functions=_AF,
       symbolic="registration variant of provider 2 (10 variants); evaluated operation",
       bounds="2 providers on one storage", stubs=["refresh_interval=None (no token cache; C14 covers the cache)"]),
    Ob(fn="auth_history_3", clause="as above, three providers", tiers=("thorough",), timeout=400, params=range(NAV), param_names=["first: " + v for v in AVNAMES],
       functions=_AF, symbolic="variants of providers 2 and 3; evaluated operation", bounds="3 providers on one storage",
       stubs=["refresh_interval=None"]),
    Ob(fn="auth_test_scope", clause="a provider attached to one test with @schema.auth(P) obeys the same filters and does not leak to the storage it was created from",
       timeout={"quick": 120, "thorough": 300}, functions=_AF, symbolic="filter form/value, evaluated operation, presence of a schema-level provider",
       bounds="one test-scope provider; 4 filter forms; 4 operations"),
]
