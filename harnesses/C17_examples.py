"""C17 - every explicit example in the document ends up, verbatim, in an examples-phase case.

Real code executed symbolically: schemathesis.specs.openapi.examples.produce_combinations, _produce_parameter_combinations,
extract_inner_examples, extract_from_schema, _expand_subschemas, extract_top_level, extract_from_schemas.
Symbolic: how many examples each parameter / media type has, and at which of the documented placements they sit.
Stub: `_generate_single_example` (a Hypothesis draw for properties without examples) returns a sentinel.
"""
from vf.h import *
from vf.util import pick

import schemathesis
from schemathesis.specs.openapi import examples as ex
from schemathesis.specs.openapi.examples import BodyExample, ParameterExample


class Generated:
    """Stands for a schema-valid draw for a property that has no example."""


ex._generate_single_example = lambda schema, config: Generated()


def _param_examples(container: str, name: str, n: int):
    return [ParameterExample(container=container, name=name, value="%s-%s-%d" % (container, name, k)) for k in range(n)]


def _body_examples(media_type: str, n: int):
    return [BodyExample(value={"mt": media_type, "k": k}, media_type=media_type) for k in range(n)]


def combinations(n1: int, n2: int, n3: int, nb1: int, nb2: int) -> bool:
    """
    pre: 0 <= n1 <= NMAX and 0 <= n2 <= NMAX and 0 <= n3 <= NMAX and 0 <= nb1 <= NMAX and 0 <= nb2 <= 2
    post: _
    """
    examples = (
        _param_examples("query", "a", n1) + _param_examples("query", "b", n2) + _param_examples("headers", "h", n3)
        + _body_examples("application/json", nb1) + _body_examples("text/plain", nb2)
    )
    combos = list(ex.produce_combinations(examples))
    for example in examples:
        found = False
        for combo in combos:
            if isinstance(example, ParameterExample):
                if combo.get(example.container, {}).get(example.name) == example.value:
                    found = True
            elif combo.get("media_type") == example.media_type and combo.get("body") == example.value:
                found = True
        if not found:
            return False  # an example is never sent
    for combo in combos:
        # a case never mixes a body with another media type's label and always carries every parameter that has examples
        if ("body" in combo) != ("media_type" in combo):
            return False
        if "body" in combo and combo["body"].get("mt") != combo["media_type"]:
            return False
        for container, name, n in (("query", "a", n1), ("query", "b", n2), ("headers", "h", n3)):
            if n and name not in combo.get(container, {}):
                return False
            if not n and name in combo.get(container, {}):
                return False
        if (nb1 or nb2) and "body" not in combo:
            return False
    if not examples and combos:
        return False
    return True


NMAX = tier(3, 4)

# ---------------------------------------------------------------------------------------------------------------
# named examples maps: {"name": {"value": ...} | {"externalValue": ...} | resolved $ref}
ENTRY_KINDS = ["value", "value: null", "value: 0", "value: ''", "$ref to an example object with value", "$ref to a bare value", "empty object", "summary only"]


def inner_examples(k1: int, k2: int, k3: int) -> bool:
    """
    pre: 0 <= k1 < 8 and 0 <= k2 < 8 and 0 <= k3 < 8
    post: _
    """
    examples = {}
    unresolved = {}
    expected = []
    for idx, kind in enumerate((k1, k2, k3)):
        name = "e%d" % idx
        marker = "V%d" % idx
        if kind == 0:
            examples[name] = {"value": marker}
            unresolved[name] = {"value": marker}
            expected.append(marker)
        elif kind == 1:
            examples[name] = {"value": None}
            unresolved[name] = {"value": None}
            expected.append(None)
        elif kind == 2:
            examples[name] = {"value": 0}
            unresolved[name] = {"value": 0}
            expected.append(0)
        elif kind == 3:
            examples[name] = {"value": ""}
            unresolved[name] = {"value": ""}
            expected.append("")
        elif kind == 4:
            examples[name] = {"value": marker, "summary": "s"}
            unresolved[name] = {"$ref": "#/components/examples/" + name}
            expected.append(marker)
        elif kind == 5:
            # the reference resolves to something that is not an Example Object: used as the example itself
            examples[name] = {"id": marker}
            unresolved[name] = {"$ref": "#/components/examples/" + name}
            expected.append({"id": marker})
        elif kind == 6:
            examples[name] = {}
            unresolved[name] = {}
        else:
            examples[name] = {"summary": "no value here"}
            unresolved[name] = {"summary": "no value here"}
    got = list(ex.extract_inner_examples(examples, unresolved))
    return got == expected


# ---------------------------------------------------------------------------------------------------------------
# schema-level examples on properties


def _prop(kind: int, name: str):
    """-> (subschema, expected example values)"""
    if kind == 0:
        return {"type": "string"}, []
    if kind == 1:
        return {"type": "string", "example": name + "-e"}, [name + "-e"]
    if kind == 2:
        return {"type": "string", "examples": [name + "-1", name + "-2"]}, [name + "-1", name + "-2"]
    if kind == 3:
        return {"anyOf": [{"type": "string", "example": name + "-any"}, {"type": "integer"}]}, [name + "-any"]
    if kind == 4:
        return {"allOf": [{"type": "string"}, {"example": name + "-all"}]}, [name + "-all"]
    if kind == 5:
        return {"type": "string", "example": name + "-e", "examples": [name + "-1"]}, [name + "-e", name + "-1"]
    if kind == 7:
        return {"oneOf": [{"type": "integer"}, {"type": "string", "example": name + "-one"}]}, [name + "-one"]
    if kind == 8:  # both keywords on one schema object
        return {"anyOf": [{"type": "string", "example": name + "-any"}], "oneOf": [{"type": "string", "example": name + "-one"}, {"type": "integer"}]}, [name + "-any", name + "-one"]
    if kind == 9:  # an example that is itself an array, contributed by a later allOf item: one example, not one per element
        return {"allOf": [{"type": "array", "items": {"type": "string"}}, {"example": [name + "-r", name + "-g"]}]}, [[name + "-r", name + "-g"]]
    return {"type": "object", "properties": {"n": {"type": "integer", "example": 7}}}, [{"n": 7}]


class _Schema:
    generation_config = None

    @staticmethod
    def prepare_schema(schema):
        return schema


class _Op:
    schema = _Schema()


def schema_examples(ka: int, kb: int, kc: int, req_a: bool, req_b: bool, req_c: bool) -> bool:
    """
    pre: ka == param(0) % 10 and 0 <= kb <= 9 and 0 <= kc <= 6
    post: _
    """
    props = {}
    expected = {}
    for name, kind in (("a", ka), ("b", kb), ("c", kc)):
        props[name], expected[name] = _prop(kind, name)
    required = [n for n, r in (("a", req_a), ("b", req_b), ("c", req_c)) if r]
    schema = {"type": "object", "properties": props, "required": required}
    got = list(ex.extract_from_schema(_Op(), schema, "example", "examples"))
    any_examples = any(expected.values())
    if not any_examples:
        return got == []
    if not got:
        return False
    for name, values in expected.items():
        for value in values:
            if not any(obj.get(name) == value for obj in got):
                return False  # a property example is never sent
    for obj in got:
        for name in required:
            if name not in obj:
                return False  # required input missing
        for name, value in obj.items():
            if isinstance(value, Generated):
                if expected[name]:
                    return False  # generated although an example exists
            elif value not in expected[name]:
                return False  # altered example
    return True


def array_items_examples(kind: int) -> bool:
    """
    pre: 1 <= kind <= 9
    post: _
    """
    sub, want = _prop(kind, "x")
    schema = {"type": "array", "items": {"type": "object", "properties": {"x": sub}}}
    got = list(ex.extract_from_schema(_Op(), schema, "example", "examples"))
    return all(any(item == [{"x": w}] for item in got) for w in want) and len(got) == len(want)


# ---------------------------------------------------------------------------------------------------------------
# placements on a real operation (OpenAPI 3.0 and Swagger 2.0)

RAW30 = {
    "openapi": "3.0.2", "info": {"title": "t", "version": "1"},
    "paths": {"/a": {"post": {
        "parameters": [{"name": "q", "in": "query", "schema": {"type": "string"}}, {"name": "h", "in": "header", "schema": {"type": "string"}}],
        "requestBody": {"content": {"application/json": {"schema": {"type": "object", "properties": {"id": {"type": "integer"}}}},
                                    "text/plain": {"schema": {"type": "string"}}}},
        "responses": {"200": {"description": "OK"}}}}},
}
RAW20 = {
    "swagger": "2.0", "info": {"title": "t", "version": "1"}, "consumes": ["application/json"],
    "paths": {"/a": {"post": {
        "parameters": [{"name": "q", "in": "query", "type": "string"}, {"name": "h", "in": "header", "type": "string"},
                       {"name": "payload", "in": "body", "schema": {"type": "object", "properties": {"id": {"type": "integer"}}}}],
        "responses": {"200": {"description": "OK"}}}}},
}
S30 = schemathesis.openapi.from_dict(RAW30)
S20 = schemathesis.openapi.from_dict(RAW20)
OP30 = S30["/a"]["POST"]
OP20 = S20["/a"]["POST"]
_P30 = {p.name: p for p in OP30.iter_parameters()}
_B30 = {b.media_type: b for b in OP30.body}
_P20 = {p.name: p for p in OP20.iter_parameters()}
_B20 = list(OP20.body)[0]
PLACEMENTS30 = ["parameter.example", "parameter.examples map", "parameter.schema.example", "parameter.schema.examples list",
                "header parameter.example", "media type example", "media type examples map", "media type schema.example",
                "media type schema property example", "second media type example"]


def placements_30(p1: int, p2: int) -> bool:
    """
    pre: 0 <= p1 < 10 and 0 <= p2 < 10
    post: _
    """
    raw_op = RAW30["paths"]["/a"]["post"]
    touched = []

    def put(resolved, raw, key, value):
        for d in (resolved, raw):
            touched.append((d, key, d.get(key, touched)))
            d[key] = value

    want_params, want_bodies = [], []
    try:
        for p in {p1, p2}:
            if p == 0:
                put(_P30["q"].definition, raw_op["parameters"][0], "example", "Q-EX")
                want_params.append(("query", "q", "Q-EX"))
            elif p == 1:
                put(_P30["q"].definition, raw_op["parameters"][0], "examples", {"one": {"value": "Q-M1"}, "two": {"value": None}})
                want_params += [("query", "q", "Q-M1"), ("query", "q", None)]
            elif p == 2:
                put(_P30["q"].definition["schema"], raw_op["parameters"][0]["schema"], "example", "Q-SE")
                want_params.append(("query", "q", "Q-SE"))
            elif p == 3:
                put(_P30["q"].definition["schema"], raw_op["parameters"][0]["schema"], "examples", ["Q-L1", "Q-L2"])
                want_params += [("query", "q", "Q-L1"), ("query", "q", "Q-L2")]
            elif p == 4:
                put(_P30["h"].definition, raw_op["parameters"][1], "example", "H-EX")
                want_params.append(("headers", "h", "H-EX"))
            elif p == 5:
                put(_B30["application/json"].definition, raw_op["requestBody"]["content"]["application/json"], "example", {"id": 1})
                want_bodies.append(("application/json", {"id": 1}))
            elif p == 6:
                put(_B30["application/json"].definition, raw_op["requestBody"]["content"]["application/json"], "examples", {"one": {"value": {"id": 2}}, "nul": {"value": None}})
                want_bodies += [("application/json", {"id": 2}), ("application/json", None)]
            elif p == 7:
                put(_B30["application/json"].definition["schema"], raw_op["requestBody"]["content"]["application/json"]["schema"], "example", {"id": 3})
                want_bodies.append(("application/json", {"id": 3}))
            elif p == 8:
                put(_B30["application/json"].definition["schema"]["properties"]["id"],
                    raw_op["requestBody"]["content"]["application/json"]["schema"]["properties"]["id"], "example", 4)
                want_bodies.append(("application/json", {"id": 4}))
            else:
                put(_B30["text/plain"].definition, raw_op["requestBody"]["content"]["text/plain"], "example", "T-EX")
                want_bodies.append(("text/plain", "T-EX"))
        found = list(ex.extract_top_level(OP30)) + list(ex.extract_from_schemas(OP30))
        combos = list(ex.produce_combinations(found))
    finally:
        for d, key, old in reversed(touched):
            if old is touched:
                d.pop(key, None)
            else:
                d[key] = old
    for container, name, value in want_params:
        if not any(c.get(container, {}).get(name) == value and name in c.get(container, {}) for c in combos):
            return False
    for media_type, value in want_bodies:
        if not any(c.get("media_type") == media_type and "body" in c and c["body"] == value for c in combos):
            return False
    return True


def placements_20(p1: int, p2: int) -> bool:
    """
    pre: 0 <= p1 < 6 and 0 <= p2 < 6
    post: _
    """
    raw_op = RAW20["paths"]["/a"]["post"]
    touched = []

    def put(resolved, raw, key, value):
        for d in (resolved, raw):
            touched.append((d, key, d.get(key, touched)))
            d[key] = value

    want_params, want_bodies = [], []
    try:
        for p in {p1, p2}:
            if p == 0:
                put(_P20["q"].definition, raw_op["parameters"][0], "x-example", "Q-X")
                want_params.append(("query", "q", "Q-X"))
            elif p == 1:
                put(_P20["q"].definition, raw_op["parameters"][0], "x-examples", {"one": {"value": "Q-M1"}, "two": {"value": 0}})
                want_params += [("query", "q", "Q-M1"), ("query", "q", 0)]
            elif p == 2:
                put(_P20["h"].definition, raw_op["parameters"][1], "x-example", "H-X")
                want_params.append(("headers", "h", "H-X"))
            elif p == 3:
                put(_B20.definition, raw_op["parameters"][2], "x-example", {"id": 1})
                want_bodies.append({"id": 1})
            elif p == 4:
                put(_B20.definition["schema"], raw_op["parameters"][2]["schema"], "example", {"id": 2})
                want_bodies.append({"id": 2})
            else:
                put(_B20.definition["schema"]["properties"]["id"], raw_op["parameters"][2]["schema"]["properties"]["id"], "example", 5)
                want_bodies.append({"id": 5})
        found = list(ex.extract_top_level(OP20)) + list(ex.extract_from_schemas(OP20))
        combos = list(ex.produce_combinations(found))
    finally:
        for d, key, old in reversed(touched):
            if old is touched:
                d.pop(key, None)
            else:
                d[key] = old
    for container, name, value in want_params:
        if not any(name in c.get(container, {}) and c[container][name] == value for c in combos):
            return False
    for value in want_bodies:
        if not any("body" in c and c["body"] == value for c in combos):
            return False
    return True



# ---------------------------------------------------------------------------------------------------------------
# attaching the example cases to the test: unsendable ones are reported, every other one is still sent

from schemathesis.generation.hypothesis import builder as _builder
from schemathesis.generation.hypothesis.builder import InvalidHeadersExampleMark
from vf.util import mk_case

HEADER_KINDS = [None, {"X-Token": "ok"}, {"X-Token": "bad" + chr(10) + "value"}, {"X-Token": "snow" + chr(0x2603)}, {}]


class _Examples:
    """hypothesis.example stand-in: records the explicit example instead of decorating."""

    def __init__(self):
        self.attached = []

    def example(self, **kwargs):
        self.attached.append(kwargs["case"])
        return lambda test: test


def attach_examples(k0: int, k1: int, k2: int, k3: int, n: int) -> bool:
    """
    pre: all(0 <= k < len(HEADER_KINDS) for k in (k0, k1, k2, k3)) and 0 <= n <= 4
    post: _
    """
    kinds = [k0, k1, k2, k3][:n]
    cases = []
    for i, k in enumerate(kinds):
        headers = pick(HEADER_KINDS, k)
        cases.append(mk_case(OP30, "e%d" % i, headers=None if headers is None else dict(headers), query={"q": "v%d" % i}))

    class _Operation:
        schema = OP30.schema
        label = OP30.label

        @staticmethod
        def get_strategies_from_examples(**kwargs):
            return list(cases)

    def test(case):
        return None

    recorder = _Examples()
    saved = _builder.hypothesis, _builder.examples.generate_one, _builder.HookContext
    _builder.hypothesis, _builder.examples.generate_one, _builder.HookContext = recorder, (lambda strategy: strategy), (lambda operation: None)
    try:
        _builder.add_examples(test, _Operation())
    finally:
        _builder.hypothesis, _builder.examples.generate_one, _builder.HookContext = saved
    sendable = [c for c, k in zip(cases, kinds) if k not in (2, 3)]
    # every sendable example is attached (in order), whatever precedes it; an unsendable one is reported, not silently dropped
    if len(recorder.attached) != len(sendable) or any(a is not b for a, b in zip(recorder.attached, sendable)):
        return False
    return InvalidHeadersExampleMark.is_set(test) == any(k in (2, 3) for k in kinds)

_F = ["schemathesis.specs.openapi.examples.produce_combinations", "schemathesis.specs.openapi.examples._produce_parameter_combinations"]
OBLIGATIONS = [
    Ob(fn="attach_examples", clause="an example that cannot be sent (header value with a newline / not latin-1) is reported for the operation and every other example is still attached to the test, whatever its position",
       timeout={"quick": 200, "thorough": 600}, functions=["schemathesis.generation.hypothesis.builder.add_examples", "schemathesis.transport.prepare.find_invalid_headers"],
       symbolic="number of example cases (0-4) and, per case, which of 5 header shapes it carries (none, valid, newline, non-latin-1, empty)", bounds="<= 4 example cases",
       stubs=["hypothesis.example replaced by a recorder", "examples.generate_one / get_strategies_from_examples hand the prepared cases over", "hook dispatch context stubbed (no hooks registered)"]),
    Ob(fn="combinations", clause="each example is sent in at least one case; every case carries one value for every parameter that has examples; bodies keep their media type",
       timeout={"quick": 150, "thorough": 600}, functions=_F, symbolic="number of examples of 3 parameters (2 containers) and 2 media types",
       bounds={"quick": "0..3 examples per parameter / json body, 0..2 for the second media type", "thorough": "0..4"}),
    Ob(fn="inner_examples", clause="named examples (`examples` / `x-examples` maps) are sent verbatim, including null / falsy values and referenced examples",
       timeout={"quick": 120, "thorough": 300}, functions=["schemathesis.specs.openapi.examples.extract_inner_examples"],
       symbolic="kind of each of 3 map entries (8 kinds)", bounds="3 entries x 8 kinds", outside=["externalValue (network)"]),
    Ob(fn="schema_examples", clause="schema-level example/examples on properties, inside anyOf / oneOf (also both on one schema) and allOf branches and nested objects are sent unchanged; required properties are never missing",
       timeout={"quick": 200, "thorough": 600}, params=range(10), functions=["schemathesis.specs.openapi.examples.extract_from_schema", "schemathesis.specs.openapi.examples._expand_subschemas"],
       symbolic="placement kind (7) of the examples of 3 properties, membership in required", bounds="3 properties x 7 kinds x required flags",
       stubs=["_generate_single_example (Hypothesis draw for properties without examples) returns a sentinel"]),
    Ob(fn="array_items_examples", clause="examples inside array items are wrapped and sent", timeout=120,
       functions=["schemathesis.specs.openapi.examples.extract_from_schema"], symbolic="placement kind", bounds="6 kinds"),
    Ob(fn="placements_30", clause="every placement OpenAPI 3.0 offers (parameter example/examples, schema example/examples, media type example/examples, property examples) reaches a case",
       timeout={"quick": 200, "thorough": 600}, functions=["schemathesis.specs.openapi.examples.extract_top_level", "schemathesis.specs.openapi.examples.extract_from_schemas",
                                                            "schemathesis.specs.openapi.examples.extract_inner_examples"] + _F,
       symbolic="which two of 10 placements carry examples", bounds="pairs of 10 placements on one operation with 2 parameters and 2 media types",
       stubs=["_generate_single_example returns a sentinel"]),
    Ob(fn="placements_20", clause="same for Swagger 2.0 (x-example, x-examples, schema example)", timeout={"quick": 200, "thorough": 600},
       functions=["schemathesis.specs.openapi.examples.extract_top_level", "schemathesis.specs.openapi.examples.extract_from_schemas"] + _F,
       symbolic="which two of 6 placements carry examples", bounds="pairs of 6 placements"),
]
