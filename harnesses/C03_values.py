"""C03.a-d - boundary values produced by the coverage phase carry labels that match their content.

Real code: schemathesis.generation.coverage._positive_number, closest_multiple_greater_than, _positive_string,
_positive_array, cover_schema_iter (NEGATIVE branches for maximum/minimum/exclusive*/minLength/maxLength).
Symbolic: the numeric schema keywords themselves (unbounded Python ints).
Stub: Hypothesis draws (`ctx.generate_from_schema`, `ctx.generate_from`) return a sentinel and record the schema they were asked for -
values drawn by hypothesis-jsonschema for that schema are trusted to satisfy it; the harness checks the *requested* schema instead.
"""
from vf.h import *
from vf.util import pick

from schemathesis.generation import GenerationMode
from schemathesis.generation import coverage as cov
from schemathesis.generation.coverage import CoverageContext


class Sentinel:
    def __init__(self, schema):
        self.schema = schema

    def __getitem__(self, item):  # `[:max_length]` on a drawn string
        return self

    def ljust(self, *a):
        return self

    def __len__(self):
        return 1

    def __iter__(self):
        return iter([self])

    def __add__(self, other):
        return self


class StubCtx(CoverageContext):
    __slots__ = ("requests",)

    def __init__(self, *, location="query", generation_modes=None, path=None, requests=None):
        super().__init__(location=location, generation_modes=generation_modes, path=path)
        self.requests = requests if requests is not None else []

    def with_positive(self):
        return StubCtx(location=self.location, generation_modes=[GenerationMode.POSITIVE], path=self.path, requests=self.requests)

    def with_negative(self):
        return StubCtx(location=self.location, generation_modes=[GenerationMode.NEGATIVE], path=self.path, requests=self.requests)

    def generate_from_schema(self, schema):
        self.requests.append(schema)
        return Sentinel(schema)

    def generate_from(self, strategy):
        return Sentinel(None)


def int_schema(minimum, maximum, exclusive_minimum, exclusive_maximum, multiple_of):
    schema = {"type": "integer"}
    if minimum is not None:
        schema["minimum"] = minimum
    if maximum is not None:
        schema["maximum"] = maximum
    if exclusive_minimum is not None:
        schema["exclusiveMinimum"] = exclusive_minimum
    if exclusive_maximum is not None:
        schema["exclusiveMaximum"] = exclusive_maximum
    if multiple_of is not None:
        schema["multipleOf"] = multiple_of
    return schema


def int_valid(v, minimum, maximum, exclusive_minimum, exclusive_maximum, multiple_of) -> bool:
    """JSON Schema (2019-09+/OpenAPI 3.1) meaning of the numeric keywords for an integer instance."""
    if minimum is not None and v < minimum:
        return False
    if maximum is not None and v > maximum:
        return False
    if exclusive_minimum is not None and v <= exclusive_minimum:
        return False
    if exclusive_maximum is not None and v >= exclusive_maximum:
        return False
    if multiple_of is not None and v % multiple_of != 0:
        return False
    return True


def satisfiable(minimum, maximum, exclusive_minimum, exclusive_maximum, multiple_of) -> bool:
    lo = None
    if minimum is not None:
        lo = minimum
    if exclusive_minimum is not None and (lo is None or exclusive_minimum + 1 > lo):
        lo = exclusive_minimum + 1
    hi = None
    if maximum is not None:
        hi = maximum
    if exclusive_maximum is not None and (hi is None or exclusive_maximum - 1 < hi):
        hi = exclusive_maximum - 1
    if lo is None or hi is None:
        return True
    if multiple_of is not None:
        first = lo + (-lo) % multiple_of
        return first <= hi
    return lo <= hi


def positive_number(
    minimum: Optional[int], maximum: Optional[int], exclusive_minimum: Optional[int], exclusive_maximum: Optional[int]
) -> bool:
    """
    pre: satisfiable(minimum, maximum, exclusive_minimum, exclusive_maximum, None)
    post: _
    """
    schema = int_schema(minimum, maximum, exclusive_minimum, exclusive_maximum, None)
    ctx = StubCtx(generation_modes=[GenerationMode.POSITIVE])
    for gv in cov._positive_number(ctx, schema):
        if gv.generation_mode != GenerationMode.POSITIVE:
            return False
        if isinstance(gv.value, Sentinel):
            continue
        if not int_valid(gv.value, minimum, maximum, exclusive_minimum, exclusive_maximum, None):
            return False
    return True


def positive_number_multiple(minimum: Optional[int], maximum: Optional[int], multiple_of: int) -> bool:
    """
    pre: 1 <= multiple_of <= MULT_MAX
    pre: satisfiable(minimum, maximum, None, None, multiple_of)
    post: _
    """
    schema = int_schema(minimum, maximum, None, None, multiple_of)
    ctx = StubCtx(generation_modes=[GenerationMode.POSITIVE])
    for gv in cov._positive_number(ctx, schema):
        if isinstance(gv.value, Sentinel):
            continue
        if not int_valid(gv.value, minimum, maximum, None, None, multiple_of):
            return False
    return True


MULT_MAX = tier(4, 12)


def positive_number_draft4(minimum: int, maximum: int, exclusive_minimum: bool, exclusive_maximum: bool) -> bool:
    """
    pre: minimum + 2 <= maximum
    post: _
    """
    # OpenAPI 2.0 / 3.0 (JSON Schema draft 4): exclusiveMinimum / exclusiveMaximum are booleans qualifying minimum / maximum.
    schema = {"type": "integer", "minimum": minimum, "maximum": maximum}
    if exclusive_minimum:
        schema["exclusiveMinimum"] = True
    if exclusive_maximum:
        schema["exclusiveMaximum"] = True
    ctx = StubCtx(generation_modes=[GenerationMode.POSITIVE])
    for gv in cov._positive_number(ctx, schema):
        if isinstance(gv.value, Sentinel):
            continue
        v = gv.value
        if v < minimum or v > maximum or (exclusive_minimum and v == minimum) or (exclusive_maximum and v == maximum):
            return False
    return True


def negative_number(
    minimum: Optional[int], maximum: Optional[int], exclusive_minimum: Optional[int], exclusive_maximum: Optional[int]
) -> bool:
    """
    pre: satisfiable(minimum, maximum, exclusive_minimum, exclusive_maximum, None)
    post: _
    """
    schema = int_schema(minimum, maximum, exclusive_minimum, exclusive_maximum, None)
    ctx = StubCtx(generation_modes=[GenerationMode.NEGATIVE])
    n_negative = 0
    for gv in cov.cover_schema_iter(ctx, schema):
        if gv.generation_mode != GenerationMode.NEGATIVE:
            return False
        if isinstance(gv.value, Sentinel):
            continue
        n_negative += 1
        v = gv.value
        if int_valid(v, minimum, maximum, exclusive_minimum, exclusive_maximum, None):
            return False  # labelled invalid but conforms
        d = gv.description
        if d == "Value greater than maximum":
            if not ((maximum is not None and v > maximum) or (exclusive_maximum is not None and v >= exclusive_maximum)):
                return False
        elif d == "Value smaller than minimum":
            if not ((minimum is not None and v < minimum) or (exclusive_minimum is not None and v <= exclusive_minimum)):
                return False
        else:
            return False
    # every present bound gets a negative boundary value (possibly deduplicated against an equal one)
    present = sum(x is not None for x in (minimum, maximum, exclusive_minimum, exclusive_maximum))
    return n_negative >= (1 if present else 0)


TYPE_FORMS = ["integer", "number", "string", "boolean", "null", "object", "array", ["number", "null"], ["integer", "null"], ["string", "number"],
              ["null"], ["boolean", "integer"], ["object", "array", "number"]]
# not included: ["integer", "number"] - _negative_type raises KeyError('integer') for it on the pinned tree (a crash, reported as an error of
# the operation; C03 is about labels, so this is recorded in DESIGN.md as an observation, not as a finding of this property)


class TypeCtx(StubCtx):
    __slots__ = ("asked",)

    def generate_from(self, strategy):
        self.asked.append(strategy)
        return Sentinel(None)


def negative_type(k: int) -> bool:
    """
    pre: 0 <= k < len(TYPE_FORMS)
    post: _
    """
    ty = pick(TYPE_FORMS, k)
    declared = [ty] if isinstance(ty, str) else list(ty)
    ctx = TypeCtx(generation_modes=[GenerationMode.NEGATIVE])
    ctx.asked = []
    values = list(cov._negative_type(ctx, set(), ty))
    if any(v.generation_mode != GenerationMode.NEGATIVE or v.description != "Incorrect type" for v in values):
        return False
    for strategy in ctx.asked:
        for name, known in cov.STRATEGIES_FOR_TYPE.items():
            if strategy is known:
                # a value presented as having an incorrect type is drawn from a type the schema does not admit
                # (an integer IS a number: never offered as a wrong type where `number` is admitted, alone or in a list)
                if name in declared or (name == "integer" and "number" in declared):
                    return False
    return len(values) == len(ctx.asked) and len(values) >= 1


def negative_items(lo: int, hi: int, both: bool) -> bool:
    """
    pre: lo <= hi
    post: _
    """
    schema = {"type": "array", "items": {"type": "integer", "minimum": lo, "maximum": hi}}
    ctx = StubCtx(generation_modes=[GenerationMode.POSITIVE, GenerationMode.NEGATIVE] if both else [GenerationMode.NEGATIVE])
    seen_invalid_items = 0
    for gv in cov.cover_schema_iter(ctx, schema):
        d = gv.description or ""
        if gv.generation_mode == GenerationMode.NEGATIVE and d.startswith("Array with invalid items") and isinstance(gv.value, list) and len(gv.value) == 1:
            item = gv.value[0]
            if isinstance(item, int) and not isinstance(item, bool):
                seen_invalid_items += 1
                if lo <= item <= hi:
                    return False  # an array presented as holding an invalid item holds a conforming one
    return seen_invalid_items >= 1


def both_modes_number(minimum: Optional[int], maximum: Optional[int]) -> bool:
    """
    pre: minimum is None or maximum is None or minimum <= maximum
    post: _
    """
    schema = int_schema(minimum, maximum, None, None, None)
    ctx = StubCtx(generation_modes=[GenerationMode.POSITIVE, GenerationMode.NEGATIVE])
    for gv in cov.cover_schema_iter(ctx, schema):
        if isinstance(gv.value, Sentinel):
            continue
        ok = int_valid(gv.value, minimum, maximum, None, None, None)
        if ok != (gv.generation_mode == GenerationMode.POSITIVE):
            return False
    return True


def _len_request_ok(req, lo, hi) -> bool:
    rlo = req.get("minLength", 0)
    rhi = req.get("maxLength")
    if rlo < (lo or 0):
        return False
    if hi is not None and (rhi is None or rhi > hi):
        return False
    if rhi is not None and rlo > rhi:
        return False
    return True


def positive_string(min_length: Optional[int], max_length: Optional[int]) -> bool:
    """
    pre: min_length is None or min_length >= 0
    pre: max_length is None or max_length >= 0
    pre: min_length is None or max_length is None or min_length <= max_length
    post: _
    """
    schema = {"type": "string"}
    if min_length is not None:
        schema["minLength"] = min_length
    if max_length is not None:
        schema["maxLength"] = max_length
    ctx = StubCtx(generation_modes=[GenerationMode.POSITIVE])
    for gv in cov._positive_string(ctx, schema):
        if gv.generation_mode != GenerationMode.POSITIVE or not isinstance(gv.value, Sentinel):
            return False
        req = gv.value.schema
        if not _len_request_ok(req, min_length, max_length):
            return False
        d = gv.description
        if d == "Minimum length string" and req.get("maxLength") != min_length:
            return False
        if d == "Maximum length string" and req.get("minLength") != max_length:
            return False
        if d == "Near-boundary length string":
            n = req.get("minLength")
            if n != req.get("maxLength"):
                return False
            if not ((min_length is not None and n == min_length + 1) or (max_length is not None and n == max_length - 1)):
                return False
    return True


def negative_string(min_length: Optional[int], max_length: Optional[int]) -> bool:
    """
    pre: min_length is None or min_length >= 0
    pre: max_length is None or max_length >= 0
    pre: min_length is None or max_length is None or min_length <= max_length
    post: _
    """
    schema = {}
    if min_length is not None:
        schema["minLength"] = min_length
    if max_length is not None:
        schema["maxLength"] = max_length
    ctx = StubCtx(generation_modes=[GenerationMode.NEGATIVE])
    for gv in cov.cover_schema_iter(ctx, schema):
        if gv.generation_mode != GenerationMode.NEGATIVE or not isinstance(gv.value, Sentinel):
            return False
        req = gv.value.schema
        lo, hi = req.get("minLength", 0), req.get("maxLength")
        if hi is None or lo > hi or lo < 0:
            return False
        d = gv.description
        if d == "String smaller than minLength":
            if min_length is None or not hi < min_length:
                return False
        elif d == "String larger than maxLength":
            if max_length is None or not lo > max_length:
                return False
        else:
            return False
    return True


def positive_array(min_items: Optional[int], max_items: Optional[int], template_len: int) -> bool:
    """
    pre: min_items is None or min_items >= 0
    pre: max_items is None or max_items >= 0
    pre: min_items is None or max_items is None or min_items <= max_items
    pre: 0 <= template_len <= 3 and (min_items is None or template_len >= min_items) and (max_items is None or template_len <= max_items)
    post: _
    """
    schema = {"type": "array", "items": {"type": "integer"}}
    if min_items is not None:
        schema["minItems"] = min_items
    if max_items is not None:
        schema["maxItems"] = max_items
    template = [0] * template_len  # what a conforming draw for the schema looks like: any length inside [minItems, maxItems]
    ctx = StubCtx(generation_modes=[GenerationMode.POSITIVE])
    for gv in cov._positive_array(ctx, schema, template):
        if gv.generation_mode != GenerationMode.POSITIVE:
            return False
        if not isinstance(gv.value, Sentinel):
            if gv.value is not template:
                return False
            continue
        req = gv.value.schema
        rlo, rhi = req.get("minItems", 0), req.get("maxItems")
        if rlo < (min_items or 0):
            return False
        if max_items is not None and (rhi is None or rhi > max_items):
            return False
        if rhi is not None and rlo > rhi:
            return False
    return True


_NUM_FUNCS = ["schemathesis.generation.coverage._positive_number", "schemathesis.generation.coverage.closest_multiple_greater_than",
              "schemathesis.generation.coverage.GeneratedValue"]
_STUB = "Hypothesis draws (ctx.generate_from_schema / ctx.generate_from / cached_draw) replaced by a sentinel that records the requested schema"

OBLIGATIONS = [
    Ob(fn="positive_number", clause="a value presented as valid conforms to the declared schema (integer bounds incl. 0, equal min/max, exclusive bounds)",
       timeout={"quick": 120, "thorough": 400}, functions=_NUM_FUNCS,
       symbolic="minimum, maximum, exclusiveMinimum, exclusiveMaximum: each None or an unbounded int",
       bounds="all Python ints (no size bound); integer-typed schema; satisfiable bounds", stubs=[_STUB],
       outside=["float bounds", "examples/defaults (exempt by the property)"]),
    Ob(fn="positive_number_multiple", clause="valid boundary values respect multipleOf",
       timeout={"quick": 120, "thorough": 400}, functions=_NUM_FUNCS,
       symbolic="minimum, maximum (unbounded ints or None), multipleOf",
       bounds={"quick": "1 <= multipleOf <= 4; minimum/maximum unbounded", "thorough": "1 <= multipleOf <= 12"}, stubs=[_STUB]),
    Ob(fn="positive_number_draft4", clause="exclusive bounds written the OpenAPI 2.0/3.0 way (boolean flags) still give conforming values",
       timeout={"quick": 60, "thorough": 200}, functions=_NUM_FUNCS,
       symbolic="minimum, maximum unbounded ints, exclusiveMinimum/exclusiveMaximum booleans", bounds="minimum + 2 <= maximum", stubs=[_STUB]),
    Ob(fn="negative_number", clause="a value presented as invalid violates the schema in the way its description says",
       timeout={"quick": 120, "thorough": 400}, functions=["schemathesis.generation.coverage.cover_schema_iter"] + _NUM_FUNCS,
       symbolic="minimum, maximum, exclusiveMinimum, exclusiveMaximum: None or unbounded ints", bounds="all Python ints", stubs=[_STUB]),
    Ob(fn="negative_type", clause="a value presented as having an incorrect type is drawn for a type the schema does not admit (integers are never offered as wrong where `number` is admitted, alone or in a type list)",
       timeout=120, functions=["schemathesis.generation.coverage._negative_type"], symbolic="which of 13 `type` forms (7 names, 6 lists) is declared", bounds="13 type forms (the list [integer, number] makes the function raise KeyError and is excluded)",
       stubs=["ctx.generate_from records the strategy it was asked to draw from"], outside=["the values Hypothesis draws from those per-type strategies"]),
    Ob(fn="negative_items", clause="an array presented as invalid because of its items really holds an item that violates the item schema, also when valid and invalid values are generated together",
       timeout={"quick": 200, "thorough": 600}, functions=["schemathesis.generation.coverage._negative_items", "schemathesis.generation.coverage.cover_schema_iter"],
       symbolic="minimum and maximum of the item schema (unbounded ints), modes [negative] or [positive, negative]", bounds="one integer item schema; unbounded bounds"),
    Ob(fn="both_modes_number", clause="with both modes, each boundary number is labelled positive iff it conforms",
       timeout={"quick": 120, "thorough": 400}, functions=["schemathesis.generation.coverage.cover_schema_iter",
                                                          "schemathesis.generation.coverage._cover_positive_for_type"] + _NUM_FUNCS,
       symbolic="minimum, maximum", bounds="all Python ints", stubs=[_STUB]),
    Ob(fn="positive_string", clause="valid boundary-length strings are requested inside [minLength, maxLength] and match their description",
       timeout={"quick": 120, "thorough": 400}, functions=["schemathesis.generation.coverage._positive_string"],
       symbolic="minLength, maxLength: None or unbounded non-negative ints", bounds="all non-negative ints", stubs=[_STUB],
       outside=["pattern / format interplay (C01 covers the pattern rewrite)"]),
    Ob(fn="negative_string", clause="invalid-length strings are requested strictly outside [minLength, maxLength]",
       timeout={"quick": 120, "thorough": 400}, functions=["schemathesis.generation.coverage.cover_schema_iter"],
       symbolic="minLength, maxLength", bounds="all non-negative ints", stubs=[_STUB]),
    Ob(fn="positive_array", clause="valid boundary-size arrays are requested inside [minItems, maxItems]",
       timeout={"quick": 120, "thorough": 400}, functions=["schemathesis.generation.coverage._positive_array"],
       symbolic="minItems, maxItems (unbounded), length of the template draw", bounds="template length 0..3; bounds unbounded", stubs=[_STUB]),
]
