"""C09 - the printed curl command re-sends the same request.

Real code executed symbolically: schemathesis.core.curl.generate, _filter_headers, get_excluded_headers;
schemathesis.transport.prepare.prepare_request (sanitize on/off); schemathesis.engine.recorder.ScenarioRecorder.find_failure_data.
Oracle: a model of POSIX word splitting + curl's option semantics (curl(1): -X, -H, -d, --insecure) applied to the argv the shell would
build, compared with the original request.
Stub: shlex.quote -> a placeholder token; its contract ("sh turns quote(s) back into the single word s") is assumed.
"""
from vf.h import *
from vf.util import mk_case, mk_interaction, pick

import schemathesis
from schemathesis.core import SCHEMATHESIS_TEST_CASE_HEADER, curl
from schemathesis.core.failures import Failure
from schemathesis.core.transport import Response
from schemathesis.engine.recorder import CaseNode, Request, ScenarioRecorder
from schemathesis.transport import prepare

METHODS = ["GET", "POST", "PUT", "PATCH", "DELETE", "OPTIONS", "TRACE", "HEAD"]
N = tier(2, 3)


class Quoter:
    """shlex.quote stand-in: every quoted word becomes a placeholder; the words themselves stay symbolic."""

    def __init__(self):
        self.words = []

    def __call__(self, s):
        self.words.append(s)
        return "\x01%d\x02" % (len(self.words) - 1)


def shell_words(command: str, quoter: Quoter):
    """POSIX field splitting of the command line (only blanks separate words; quoted words are single fields)."""
    out = []
    for field in command.split(" "):
        if field == "":
            continue
        if field.startswith("\x01") and field.endswith("\x02"):
            out.append(quoter.words[int(field[1:-1])])
        else:
            out.append(field)
    return out


def curl_model(argv):
    """What curl 7.x sends for this argv (subset of options used by schemathesis). -> (method, url, headers, body, insecure) or None."""
    if not argv or argv[0] != "curl":
        return None
    method, url, headers, body, insecure = None, None, [], None, False
    i = 1
    while i < len(argv):
        arg = argv[i]
        if arg == "-X":
            method = argv[i + 1]
            i += 2
        elif arg == "-H":
            line = argv[i + 1]
            name = None
            for known in KNOWN_NAMES:  # header names are concrete in this harness; values stay symbolic
                if line.startswith(known + ":"):
                    name = known
            if name is None:
                return None
            value = line[len(name) + 1:]
            while value.startswith(" "):
                value = value[1:]
            if value != "":
                headers.append((name, value))  # "Name:" / "Name: " (no value) REMOVES the header instead of sending it empty
            i += 2
        elif arg == "-d":
            data = argv[i + 1]
            if data.startswith("@"):
                return (method, None, headers, "<contents of file %r>" % data[1:], insecure)  # reads a file
            body = data if body is None else body + "&" + data
            i += 2
        elif arg == "--insecure":
            insecure = True
            i += 1
        elif arg.startswith("-"):
            return None
        else:
            if url is not None:
                return None  # two URLs
            url = arg
            i += 1
    return method, url, headers, body, insecure


KNOWN_NAMES = ["User-Agent", "Accept-Encoding", "Accept", "Connection", SCHEMATHESIS_TEST_CASE_HEADER, "Content-Length", "Content-Type", "X-Gen", "X-Static"]


def _valid_header_value(v: str) -> bool:
    # what `requests` lets through as a header value: no leading/trailing whitespace, no CR/LF; printable ASCII here (the property's scope)
    return all(32 <= ord(c) < 127 for c in v) and (v == "" or (v[0] != " " and v[len(v) - 1] != " "))


def _valid_text(v: str) -> bool:
    return all(c not in "\x01\x02" for c in v)


def curl_argv(method: int, gen_value: str, ctype: int, body: Optional[str], verify: bool, body_is_bytes: bool) -> bool:
    """
    pre: 0 <= method < 8 and 0 <= ctype <= 2
    pre: len(gen_value) <= N and _valid_header_value(gen_value)
    pre: body is None or (len(body) <= N and _valid_text(body))
    pre: not body_is_bytes
    post: _
    """
    return _curl_argv(method, gen_value, ctype, body, verify, body_is_bytes)


def curl_argv_bytes(method: int, body: str, verify: bool) -> bool:
    """
    pre: 0 <= method < 8 and len(body) <= 2 and all(ord(c) < 128 and c not in chr(1) + chr(2) for c in body)
    post: _
    """
    return _curl_argv(method, "v", 0, body, verify, True)


def _curl_argv(method, gen_value, ctype, body, verify, body_is_bytes) -> bool:
    quoter = Quoter()
    m = pick(METHODS, method)
    content_type = pick(["application/json", "text/plain", "application/x-www-form-urlencoded"], ctype)
    url = "http://127.0.0.1/api/users?q=a%20b&x='1'"
    headers = {
        "User-Agent": "schemathesis/4", "Accept-Encoding": "gzip, deflate", "Accept": "*/*", "Connection": "keep-alive",
        SCHEMATHESIS_TEST_CASE_HEADER: "abc123", "Content-Length": "3", "Content-Type": content_type, "X-Gen": gen_value,
        "X-Static": "it's \"quoted\" $HOME `x` \\",
    }
    original_headers = dict(headers)
    payload = body.encode("utf8") if (body is not None and body_is_bytes) else body
    saved = curl.quote
    curl.quote = quoter
    try:
        command = curl.generate(method=m, url=url, body=payload, verify=verify, headers=headers, known_generated_headers={"X-Gen": gen_value})
    finally:
        curl.quote = saved
    sent = curl_model(shell_words(command, quoter))
    if sent is None:
        return False
    got_method, got_url, got_headers, got_body, insecure = sent
    if got_method != m or got_url != url or insecure != (not verify):
        return False
    if (body or None) != got_body:
        return False
    automatic = {"user-agent", "accept-encoding", "accept", "connection", "content-length", SCHEMATHESIS_TEST_CASE_HEADER.lower()}
    for name, value in original_headers.items():
        if name.lower() in automatic:
            continue
        if (name, value) not in got_headers:
            return False  # a header of the original request is not re-sent
    for name, value in got_headers:
        if original_headers.get(name) != value:
            return False  # something that was not in the original request
        if name.lower() in automatic:
            return False
    return True


# ---------------------------------------------------------------------------------------------------------------

_OK = {"responses": {"200": {"description": "OK"}}}
RAW = {"openapi": "3.0.2", "info": {"title": "t", "version": "1"},
       "paths": {"/a": {"get": {"parameters": [{"name": k, "in": "query", "schema": {"type": "string"}} for k in ("api_key", "q", "token", "page", "lim")], **_OK}}}}
SCHEMA = schemathesis.openapi.from_dict(RAW)
OP = SCHEMA["/a"]["GET"]
QUERY_KEYS = ["api_key", "q", "token", "page"]
SENSITIVE = {"api_key", "token"}


class FakeRequest:
    def __init__(self, **kwargs):
        self.kwargs = kwargs

    def prepare(self):
        return self


def request_data_sanitize_switch(key: int, value: str, header_value: str, sanitize: bool) -> bool:
    """
    pre: 0 <= key < 4 and len(value) <= N and len(header_value) <= N
    pre: "Filtered" not in value and "Filtered" not in header_value
    post: _
    """
    import requests

    name = pick(QUERY_KEYS, key)
    case = mk_case(OP, "c0", query={name: value, "lim": "1"}, headers={"Authorization": header_value, "X-Plain": header_value})
    saved = requests.Request
    requests.Request = FakeRequest
    try:
        prepared = prepare.prepare_request(case, {"X-Extra": "1"}, sanitize)
    finally:
        requests.Request = saved
    kw = prepared.kwargs
    params, headers = kw["params"], kw["headers"]
    if kw["method"] != "GET" or not kw["url"].endswith("/a"):
        return False
    if sanitize:
        # only the redacted values may differ
        if name in SENSITIVE and params[name] != "[Filtered]":
            return False
        if name not in SENSITIVE and params[name] != value:
            return False
        return headers["Authorization"] == "[Filtered]" and headers["X-Plain"] == header_value and params["lim"] == "1"
    # sanitization disabled: the reproduction command carries exactly what was sent
    return params[name] == value and params["lim"] == "1" and headers["Authorization"] == header_value and headers["X-Plain"] == header_value and headers["X-Extra"] == "1"


def _response(verify: bool) -> Response:
    return Response(status_code=200, headers={}, content=b"", request=None, elapsed=0.0, verify=verify)


def failure_data_source(which: int, h_parent: str, h_child: str, verify_parent: bool, verify_child: bool) -> bool:
    """
    pre: 0 <= which <= 2 and len(h_parent) <= 2 and len(h_child) <= 2
    post: _
    """
    # a check may derive an extra case (e.g. the same request without credentials) and attribute the failure to it
    recorder = ScenarioRecorder(label="t")
    parent = mk_case(OP, "p", query={"q": "1"})
    child = mk_case(OP, "c", query={"q": "2"})
    recorder.cases["p"] = CaseNode(value=parent, parent_id=None, transition=None)
    recorder.cases["c"] = CaseNode(value=child, parent_id="p", transition=None)
    recorder.interactions["p"] = mk_interaction(_response(verify_parent), request=Request(method="GET", uri="http://x/a?q=1", body=None, body_size=None, headers={"Authorization": [h_parent], "X-P": ["1"]}))
    recorder.interactions["c"] = mk_interaction(_response(verify_child), request=Request(method="GET", uri="http://x/a?q=2", body=None, body_size=None, headers={"Authorization": [h_child]}))
    case_id = pick([None, "p", "c"], which)
    failure = Failure(operation="GET /a", title="t", message="m", case_id=case_id)
    data = recorder.find_failure_data(parent_id="p", failure=failure)
    if case_id == "c":
        return data.case is child and data.headers == {"Authorization": h_child} and data.verify == verify_child
    return data.case is parent and data.headers == {"Authorization": h_parent, "X-P": "1"} and data.verify == verify_parent


def printed_block(command: str, m: int, with_response: bool) -> bool:
    """
    pre: len(command) <= NP and 0 <= m <= 2
    post: _
    """
    from schemathesis.core.output import OutputConfig
    from schemathesis.core.failures import format_failures

    # what the user copies from the report is the text after "Reproduce with:" - it must be the command itself, also when a quoted
    # payload spans several lines (any re-indentation of continuation lines changes the body that curl sends)
    out = format_failures(case_id="c1", response=_response(True) if with_response else None, failures=[Failure(operation="GET /a", title="t", message=pick(["", "m", "a" + chr(10) + "b"], m))],
                          curl=command, config=OutputConfig())
    marker = "Reproduce with: " + chr(10) + chr(10) + "    "
    return out.count(marker) >= 1 and out.endswith(marker + command)


NP = tier(3, 4)

OBLIGATIONS = [
    Ob(fn="printed_block", props=["C09"], clause="the 'Reproduce with' block of a failure report shows the command verbatim, also when it spans several lines",
       timeout={"quick": 200, "thorough": 600}, functions=["schemathesis.core.failures.format_failures"], symbolic="the command text (any characters incl. newlines), which of 3 failure messages, response present or not",
       bounds={"quick": "command <= 3 characters", "thorough": "command <= 4"}, stubs=["http.client.responses lookup on the concrete status 200"]),
    Ob(fn="curl_argv", props=["C09"], clause="executed by a POSIX shell with a real curl, the command sends the same method, URL, body and headers (except those curl/requests add on their own)",
       timeout={"quick": 200, "thorough": 900}, functions=["schemathesis.core.curl.generate", "schemathesis.core.curl._filter_headers", "schemathesis.core.curl.get_excluded_headers"],
       symbolic="method (8), a generated header value, Content-Type (3), body text or bytes, verify flag",
       bounds={"quick": "header value and body <= 2 characters (printable ASCII header value, any text body)", "thorough": "<= 3 characters"},
       stubs=["shlex.quote replaced by a placeholder (contract: sh splits quote(s) back into [s])", "curl option semantics modelled from curl(1) and confirmed against curl 7.88.1 on a loopback socket in the design phase"],
       outside=["non-ASCII header values, binary payloads", "URL text (passed through quote() unchanged)"]),
    Ob(fn="curl_argv_bytes", props=["C09"], clause="same, for a text payload held as bytes", timeout={"quick": 120, "thorough": 300},
       functions=["schemathesis.core.curl.generate"], symbolic="method, ASCII body of <= 2 characters encoded to bytes, verify flag", bounds="body <= 2 ASCII characters",
       stubs=["shlex.quote replaced by a placeholder"]),
    Ob(fn="request_data_sanitize_switch", props=["C09"], clause="with sanitization disabled the command carries exactly the values that were sent; with it enabled only redacted values differ",
       timeout={"quick": 200, "thorough": 600}, functions=["schemathesis.transport.prepare.prepare_request", "schemathesis.transport.requests.RequestsTransport.serialize_case",
                                                            "schemathesis.transport.prepare.prepare_headers", "schemathesis.core.output.sanitization.sanitize_value"],
       symbolic="query parameter name (4, two sensitive), its value, an Authorization header value, the sanitize flag",
       bounds={"quick": "values <= 3 characters", "thorough": "<= 4"}, stubs=["requests.Request(**kwargs).prepare() replaced by a recorder of kwargs (URL encoding is outside)"]),
    Ob(fn="failure_data_source", clause="the command is built from the headers of the request that actually caused the failure (also for cases derived inside a check)",
       timeout={"quick": 120, "thorough": 300}, functions=["schemathesis.engine.recorder.ScenarioRecorder.find_failure_data"],
       symbolic="whether the failure is attributed to the parent or a derived case; header values; verify flags", bounds="one parent and one derived case; header values <= 2 characters"),
]
