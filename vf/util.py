"""Helpers shared by harness files (no schemathesis logic is re-implemented here)."""
from __future__ import annotations

from typing import Any


def mk_case(operation, case_id: str, **kwargs: Any):
    """`operation.Case(...)` with an explicit id: the default id factory draws from `random`, which CrossHair
    turns into a (very slow) symbolic draw; the id is not the subject of any property."""
    from requests.structures import CaseInsensitiveDict

    from schemathesis.generation.case import Case

    headers = kwargs.pop("headers", None)
    return Case(
        operation=operation,
        method=kwargs.pop("method", None) or operation.method.upper(),
        path=operation.path,
        id=case_id,
        headers=CaseInsensitiveDict(headers) if headers is not None else None,
        **kwargs,
    )


def pick(seq, i):
    """Select seq[i] by forking on the (symbolic) index, so that the chosen element is concrete on every path."""
    for k in range(len(seq)):
        if i == k:
            return seq[k]
    return seq[0]


class IntBox:
    """An int-like value that delegates every comparison and arithmetic operation to the wrapped (symbolic) int but
    renders as a fixed text. Formatting a symbolic int forces CrossHair to pick one concrete value per path (one path
    per status code); messages are not the subject of any property here, decisions are."""

    __slots__ = ("v",)

    def __init__(self, v):
        self.v = v

    def _o(self, other):
        return other.v if isinstance(other, IntBox) else other

    def __eq__(self, o): return self.v == self._o(o)
    def __ne__(self, o): return self.v != self._o(o)
    def __lt__(self, o): return self.v < self._o(o)
    def __le__(self, o): return self.v <= self._o(o)
    def __gt__(self, o): return self.v > self._o(o)
    def __ge__(self, o): return self.v >= self._o(o)
    def __add__(self, o): return self.v + self._o(o)
    def __radd__(self, o): return self._o(o) + self.v
    def __sub__(self, o): return self.v - self._o(o)
    def __rsub__(self, o): return self._o(o) - self.v
    def __mul__(self, o): return self.v * self._o(o)
    def __rmul__(self, o): return self._o(o) * self.v
    def __floordiv__(self, o): return self.v // self._o(o)
    def __mod__(self, o): return self.v % self._o(o)
    def __truediv__(self, o): return self.v / self._o(o)
    def __neg__(self): return -self.v
    def __int__(self): return int(self.v)
    def __index__(self): return self.v.__index__()
    def __bool__(self): return self.v != 0
    def __hash__(self): return hash(self.v)
    def __ch_deep_realize__(self, memo): return self  # CrossHair's format() interception would otherwise realise the wrapped int
    def __format__(self, spec): return "<int>"
    def __str__(self): return "<int>"
    def __repr__(self): return "<int>"


def mk_interaction(response, request=None, timestamp: float = 0.0):
    """`Interaction(request, response)` without its `time.time()` call (CrossHair makes the clock a symbolic float and forks on it)."""
    from schemathesis.engine.recorder import Interaction

    obj = Interaction.__new__(Interaction)
    obj.request = request
    obj.response = response
    obj.timestamp = timestamp
    return obj


def stable_hash(obj):
    """builtins.hash evaluated outside CrossHair's tracing. CrossHair treats hash() as a nondeterministic library call
    and returns a fresh symbolic int, which makes every set/dict operation on objects with a custom __hash__ fork.
    Installed as a module-level `hash` in modules whose hashing only ever sees concrete values (semantics preserved)."""
    try:
        from crosshair.tracers import NoTracing, is_tracing
    except Exception:  # pragma: no cover
        return hash(obj)
    if is_tracing():
        with NoTracing():
            return hash(obj)
    return hash(obj)


def untraced(fn, *args, **kwargs):
    """Call fn outside CrossHair's tracing (only for plain constructors that merely store their arguments:
    CrossHair 0.0.110's class-contract lookup crashes on some Generic dataclass hierarchies)."""
    try:
        from crosshair.tracers import NoTracing, is_tracing
    except Exception:  # pragma: no cover
        return fn(*args, **kwargs)
    if is_tracing():
        with NoTracing():
            return fn(*args, **kwargs)
    return fn(*args, **kwargs)


def concrete(value):
    """The concrete value of `value` on this path (CrossHair: deep_realize; plain Python: identity). Used right before handing a
    produced document to a C-backed / regex-heavy judge (PyYAML), which is then run outside tracing."""
    try:
        from crosshair.core import deep_realize
        from crosshair.tracers import is_tracing
    except Exception:  # pragma: no cover
        return value
    if is_tracing():
        return deep_realize(value)
    return value
