"""Driver: runs the obligations of one property, replays counterexamples, writes evidence.

  python -m vf.driver C03 [--tier quick|thorough] [--only SUBSTR] [--jobs N]
  python -m vf.driver --replay /verif/evidence/replay/C03/<name>.json

Exit codes: 0 no unlisted violation; 1 VIOLATION (reproduced natively, not a listed known finding);
3 machinery failure (vacuous harness, counterexample that does not replay, crash).
"""
from __future__ import annotations

import argparse
import concurrent.futures as cf
import glob
import importlib.util
import json
import os
import re
import shutil
import subprocess
import sys
import time

ROOT = os.path.dirname(os.path.dirname(os.path.abspath(__file__)))
PY = sys.executable
BUILD = os.path.join(ROOT, "build")
EVID = os.path.join(ROOT, "evidence")
KNOWN = os.path.join(ROOT, "known_findings.json")

MSG_RE = re.compile(r"^(.*?):(\d+): (error|info|warning): (.*)$")


def load_module(path):
    name = "vfd_" + os.path.basename(path)[:-3]
    spec = importlib.util.spec_from_file_location(name, path)
    mod = importlib.util.module_from_spec(spec)
    sys.modules[name] = mod
    spec.loader.exec_module(mod)
    return mod


def harness_files(prop):
    out = []
    for p in sorted(glob.glob(os.path.join(ROOT, "harnesses", "*.py"))):
        base = os.path.basename(p)
        if base.startswith("_"):
            continue
        if prop in base.split("_")[0]:
            out.append(p)
    return out


def fn_extent(lines, fn):
    start = None
    for i, l in enumerate(lines):
        if re.match(r"def %s\(" % re.escape(fn), l):
            start = i
            break
    if start is None:
        raise RuntimeError("harness function %s not found" % fn)
    end = len(lines)
    for j in range(start + 1, len(lines)):
        if re.match(r"(def |class |@|[A-Za-z_])", lines[j]):
            end = j
            break
    return start, end


def generate(src_path, fn, mode, extra_pre, out_path):
    """Copy the harness file, adding preconditions / flipping the postcondition of `fn` (textual, in the docstring)."""
    with open(src_path) as f:
        lines = f.read().split("\n")
    start, end = fn_extent(lines, fn)
    doc_open = None
    for i in range(start, end):
        if lines[i].strip().startswith('"""'):
            doc_open = i
            break
    if doc_open is None or lines[doc_open].strip() != '"""':
        raise RuntimeError("harness %s: docstring must open with a line holding only three quotes" % fn)
    ins = ["    pre: %s" % e for e in extra_pre]
    if mode == "reach":
        n = 0
        for i in range(doc_open, end):
            if re.match(r"\s*post: _\s*$", lines[i]):
                lines[i] = lines[i].replace("post: _", "post: not _")
                n += 1
        if n != 1:
            raise RuntimeError("harness %s: expected exactly one `post: _` line" % fn)
    lines[doc_open + 1 : doc_open + 1] = ins
    os.makedirs(os.path.dirname(out_path), exist_ok=True)
    with open(out_path, "w") as f:
        f.write("\n".join(lines))
    return start + 2  # a 1-based line inside the def


def parse_call(msg):
    """'false when calling f(1, 2) (which returns False)' -> ('false', 'f', '1, 2')"""
    m = re.match(r"^(.*?) ?when calling (\w+)\((.*)$", msg, re.S)
    if not m:
        return None
    what, fn, rest = m.group(1), m.group(2), m.group(3)
    k = rest.find(") with crosshair.patch_to_return(")
    if k >= 0:  # nondeterministic library calls (random, time) recorded by CrossHair; the harness result must not depend on them
        rest = rest[: k + 1]
    k = rest.rfind(" (which returns ")
    if k >= 0:
        rest = rest[:k]
    rest = rest.rstrip()
    if rest.endswith(")"):
        rest = rest[:-1]
    return what.strip(), fn, rest


def run_proc(cmd, env, timeout):
    t0 = time.time()
    try:
        p = subprocess.run(cmd, env=env, stdout=subprocess.PIPE, stderr=subprocess.PIPE, timeout=timeout, text=True, errors="replace")
        return p.returncode, p.stdout, p.stderr, time.time() - t0, False
    except subprocess.TimeoutExpired as e:
        out = e.stdout if isinstance(e.stdout, str) else (e.stdout or b"").decode("utf8", "replace")
        err = e.stderr if isinstance(e.stderr, str) else (e.stderr or b"").decode("utf8", "replace")
        return -9, out, err, time.time() - t0, True


def native_replay(path, fn, args_src, env, kwargs=None):
    cmd = [PY, "-m", "vf.replay", path, fn, args_src]
    if kwargs is not None:
        cmd.append(json.dumps(kwargs))
    rc, out, err, wall, to = run_proc(cmd, env, 300)
    for line in out.splitlines():
        if line.startswith("VFREPLAY "):
            return json.loads(line[9:])
    return {"pre_ok": False, "reproduced": False, "exception": "replay crashed rc=%s: %s" % (rc, (err or out)[-800:])}


class Task:
    def __init__(self, ob, src, prop, tier, param, mode, extra_pre=(), finding=None):
        self.ob, self.src, self.prop, self.tier, self.param, self.mode = ob, src, prop, tier, param, mode
        self.extra_pre, self.finding = list(extra_pre), finding
        stem = os.path.basename(src)[:-3]
        self.harness = "%s.%s" % (stem, ob.fn)
        self.name = self.harness + ("[%s]" % param if param is not None else "")
        self.result = {}

    def env(self):
        e = dict(os.environ)
        e["VF_TIER"] = self.tier
        e["VF_PROP"] = self.prop
        e["VF_PARAM"] = "" if self.param is None else str(self.param)
        return e

    def gen_path(self):
        stem = os.path.basename(self.src)[:-3]
        p = "" if self.param is None else "_p%s" % self.param
        return os.path.join(BUILD, self.prop, self.tier, "%s__%s%s__%s.py" % (stem, self.ob.fn, p, self.mode))


def run_task(t: Task):
    ob = t.ob
    r = {"name": t.name, "mode": t.mode, "kind": ob.kind, "verdict": None, "paths": 0, "wall_s": 0.0}
    t.result = r
    env = t.env()
    try:
        if t.mode == "witness":
            gp = t.gen_path()
            generate(t.src, ob.fn, "main", [], gp)
            w = t.finding["witness"]
            rep = native_replay(gp, ob.fn, "", env, kwargs=w)
            r["verdict"] = "known_reproduced" if (rep.get("pre_ok") and rep.get("reproduced")) else "known_not_reproduced"
            r["replay"] = rep
            return r
        if ob.kind == "z3":
            timeout = ob.for_tier(ob.timeout, t.tier) or 300
            env["VF_BUDGET_S"] = str(timeout)  # the obligation stops starting new queries near its budget and reports what it decided
            rc, out, err, wall, to = run_proc([PY, "-m", "vf.z3run", t.src, ob.fn], env, timeout + 120)
            r["wall_s"] = round(wall, 2)
            data = None
            for line in out.splitlines():
                if line.startswith("VFZ3 "):
                    data = json.loads(line[5:])
            if data is None:
                r["verdict"] = "timeout" if to else "crash"
                r["detail"] = (err or out)[-1500:]
                return r
            r.update(data)
            r["paths"] = data.get("queries", 0)
            if data.get("errors"):
                r["verdict"] = "crash"
                r["detail"] = "; ".join(map(str, data["errors"]))[:1500]
            elif data.get("violations"):
                r["verdict"] = "cex"
            elif data.get("truncated") or (data.get("unknown", 0) and not data.get("unsat", 0)):
                r["verdict"] = "inconclusive"  # incl. a family cut short by the time budget: the decided part is in the counts
            else:
                r["verdict"] = "confirmed" if not data.get("unknown", 0) else "confirmed_partial"
            return r
        # CrossHair
        gp = t.gen_path()
        line = generate(t.src, ob.fn, t.mode, t.extra_pre, gp)
        timeout = ob.for_tier(ob.timeout, t.tier) or 60
        if t.mode == "reach":
            timeout = min(timeout, 60)
        pt = ob.for_tier(ob.path_timeout, t.tier)
        cmd = [PY, "-m", "vf.chrun", str(timeout), str(pt) if pt else "-", "%s:%d" % (gp, line)]
        rc, out, err, wall, to = run_proc(cmd, env, timeout * 1.5 + 90)
        r["wall_s"] = round(wall, 2)
        stats = {}
        msgs = []
        for l in out.splitlines():
            if l.startswith("VFSTATS "):
                stats = json.loads(l[8:])
            else:
                m = MSG_RE.match(l)
                if m:
                    msgs.append((m.group(3), m.group(4)))
                elif msgs and l.strip():
                    msgs[-1] = (msgs[-1][0], msgs[-1][1] + "\n" + l)
        r["paths"] = stats.get("iterations", 0)
        r["tree"] = stats.get("tree")
        if to:
            r["verdict"] = "timeout"
            return r
        errors = [m for m in msgs if m[0] == "error"]
        infos = [m for m in msgs if m[0] != "error"]
        if errors:
            msg = errors[0][1]
            r["message"] = msg[:1000]
            if msg.startswith("Unable to meet precondition"):
                r["verdict"] = "pre_unsat"
                return r
            call = parse_call(msg)
            if call is None:
                r["verdict"] = "crash"
                r["detail"] = msg[:1500]
                return r
            what, fn, args_src = call
            r["cex_args"] = args_src
            r["cex_what"] = what
            if t.mode == "reach":
                r["verdict"] = "reached" if what == "false" else "reach_exception"
                return r
            rep = native_replay(gp, ob.fn, args_src, env)
            r["replay"] = rep
            if rep.get("pre_ok") and rep.get("reproduced"):
                r["verdict"] = "cex"
            else:
                r["verdict"] = "cex_not_reproduced"
            return r
        text = " ".join(m[1] for m in infos)
        if "Confirmed over all paths" in text:
            r["verdict"] = "confirmed"
        elif "Not confirmed" in text:
            r["verdict"] = "inconclusive"
        elif rc not in (0, 1) or not msgs:
            r["verdict"] = "crash"
            r["detail"] = ((err or "") + (out or ""))[-1500:]
        else:
            r["verdict"] = "inconclusive"
            r["message"] = text[:500]
        return r
    except Exception as e:  # machinery failure
        import traceback

        r["verdict"] = "crash"
        r["detail"] = traceback.format_exc()[-1500:]
        return r


def load_known():
    if not os.path.exists(KNOWN):
        return {"findings": [], "fixed": []}
    with open(KNOWN) as f:
        return json.load(f)


def finding_matches(finding, args):
    """Does a z3-kind violation (dict of named values) fall in a listed class?"""
    try:
        return bool(eval(finding["class"], {"__builtins__": __builtins__, "re": re}, dict(args)))
    except Exception:
        return False


def do_replay(path):
    with open(path) as f:
        rec = json.load(f)
    env = dict(os.environ)
    env.update({"VF_TIER": rec["tier"], "VF_PROP": rec["property"], "VF_PARAM": "" if rec.get("param") is None else str(rec["param"])})
    if rec.get("kind") == "z3":
        rc, out, err, wall, to = run_proc([PY, "-m", "vf.z3run", rec["src"], rec["fn"], json.dumps(rec["args"])], env, 600)
        print(out[-3000:])
        return 1 if "REPRODUCED" in out else 0
    gp = os.path.join(BUILD, "replay", os.path.basename(rec["src"]))
    generate(rec["src"], rec["fn"], "main", [], gp)
    rep = native_replay(gp, rec["fn"], rec["args"], env)
    print(json.dumps(rep, indent=1))
    if rep.get("reproduced") and rep.get("pre_ok"):
        print("REPRODUCED: %s(%s) violates its postcondition on %s" % (rec["fn"], rec["args"], os.environ.get("VERIF_REPO")))
        return 1
    print("not reproduced")
    return 0


def main(argv=None):
    ap = argparse.ArgumentParser()
    ap.add_argument("prop", nargs="?")
    ap.add_argument("--tier", default=os.environ.get("VERIF_TIER") or "quick", choices=["quick", "thorough"])
    ap.add_argument("--only", default=None)
    ap.add_argument("--jobs", type=int, default=int(os.environ.get("VF_JOBS", "0")) or (os.cpu_count() or 4))
    ap.add_argument("--replay", default=None)
    ap.add_argument("--no-evidence", action="store_true")
    a = ap.parse_args(argv)
    if a.replay:
        return do_replay(a.replay)
    prop, tier_name = a.prop, a.tier
    os.environ["VF_TIER"] = tier_name
    os.environ["VF_PROP"] = prop
    t0 = time.time()
    seed = int(os.environ.get("VERIF_SEED", "0") or 0)
    known = load_known()
    shutil.rmtree(os.path.join(BUILD, prop, tier_name), ignore_errors=True)
    shutil.rmtree(os.path.join(EVID, "replay", prop), ignore_errors=True)

    tasks = []
    level_text = {}
    files = harness_files(prop)
    if not files:
        print("no harnesses for", prop)
        return 3
    for src in files:
        mod = load_module(src)
        stem = os.path.basename(src)[:-3]
        for ob in getattr(mod, "OBLIGATIONS", []):
            if ob.props and prop not in ob.props:
                continue
            if tier_name not in ob.tiers:
                continue
            if a.only and a.only not in ob.fn:
                continue
            params = ob.for_tier(ob.params, tier_name)
            plist = list(params) if params is not None else [None]
            hname = "%s.%s" % (stem, ob.fn)
            finds = [f for f in known["findings"] if f["property"] == prop and f["harness"] == hname]
            for p in plist:
                pf = [f for f in finds if f.get("param") in (None, p)]
                extra = ["not (%s)" % f["class"] for f in pf] if ob.kind == "ch" else []
                tasks.append(Task(ob, src, prop, tier_name, p, "main", extra))
                if ob.kind == "ch" and ob.reach:
                    tasks.append(Task(ob, src, prop, tier_name, p, "reach", extra))
                for f in pf:
                    if ob.kind == "ch" and f.get("witness") is not None and f.get("witness_param") in (None, p):
                        tasks.append(Task(ob, src, prop, tier_name, p, "witness", finding=f))

    # a listed finding must point at an obligation that exists (a renamed harness file would otherwise silently drop its class)
    stale = []
    if not a.only:
        present = {"%s.%s" % (os.path.basename(t.src)[:-3], t.ob.fn) for t in tasks}
        stale = [f for f in known["findings"] if f["property"] == prop and f["harness"] not in present]

    # long obligations first
    tasks.sort(key=lambda t: -(t.ob.for_tier(t.ob.timeout, tier_name) or 60) if t.mode == "main" else 0)
    with cf.ThreadPoolExecutor(max_workers=a.jobs) as ex:
        list(ex.map(run_task, tasks))

    violations, harness_errors, known_lines = [], [], []
    for f in stale:
        harness_errors.append("known finding %s names a harness that does not exist: %s" % (f["id"], f["harness"]))
    obligations = discharged = inconclusive = evaluations = nontrivial = 0
    solver_wall = 0.0
    samples = []
    functions = set()
    outside = set()
    stubs = set()
    bounds = {}
    reach_of = {(t.name): t.result for t in tasks if t.mode == "reach"}
    for t in tasks:
        r = t.result
        ob = t.ob
        if t.mode == "witness":
            if r["verdict"] == "known_reproduced":
                known_lines.append("KNOWN-FINDING: property=%s %s %s" % (prop, t.finding["id"], t.finding["what"]))
            continue
        if t.mode == "reach":
            if r["verdict"] not in ("reached",):
                main_r = next(x.result for x in tasks if x.name == t.name and x.mode == "main")
                # a twin that runs out of time is not proof of vacuity; confirmed-without-reach is.
                if r["verdict"] in ("confirmed", "pre_unsat", "crash", "reach_exception"):
                    harness_errors.append("%s: reachability twin %s (%s)" % (t.name, r["verdict"], (r.get("message") or r.get("detail") or "")[:300]))
                elif main_r.get("verdict") == "confirmed":
                    main_r["verdict"] = "inconclusive"
                    main_r["note"] = "confirmed but reachability twin was inconclusive (%s); not counted" % r["verdict"]
            continue
        functions.update(ob.functions)
        outside.update(ob.outside)
        stubs.update(ob.stubs)
        b = ob.for_tier(ob.bounds, tier_name)
        if b:
            bounds[t.harness] = b

    for t in tasks:
        if t.mode != "main":
            continue
        r = t.result
        ob = t.ob
        obligations += 1
        evaluations += int(r.get("paths") or 0)
        solver_wall += float(r.get("wall_s") or 0)
        v = r["verdict"]
        if (r.get("paths") or 0) >= 2 or v == "cex":
            nontrivial += 1
        sample = {
            "obligation": t.name,
            "clause": ob.clause,
            "engine": "CrossHair+z3" if ob.kind == "ch" else "z3",
            "symbolic": ob.symbolic,
            "bounds": ob.for_tier(ob.bounds, tier_name),
            "verdict": v,
            "paths_or_queries": r.get("paths"),
            "path_tree": r.get("tree"),
            "wall_s": r.get("wall_s"),
        }
        if ob.param_names and t.param is not None and t.param < len(ob.param_names):
            sample["configuration"] = ob.param_names[t.param]
        if t.extra_pre:
            sample["excluded_known_classes"] = t.extra_pre
        rr = reach_of.get(t.name)
        if rr:
            sample["reachability_witness"] = rr.get("cex_args")
        for k in ("note", "cex_args", "cex_what", "models", "samples", "unsat", "sat", "unknown", "queries", "translator_checks"):
            if r.get(k) is not None:
                sample[k if k != "samples" else "query_samples"] = r[k]
        samples.append(sample)
        if v == "confirmed":
            discharged += 1
        elif v == "confirmed_partial":
            inconclusive += 1
        elif v in ("inconclusive", "timeout"):
            inconclusive += 1
        elif v == "cex":
            if ob.kind == "ch":
                rec = {"property": prop, "tier": tier_name, "src": t.src, "fn": ob.fn, "param": t.param, "args": r["cex_args"], "kind": "ch",
                       "harness": t.harness, "what": r.get("cex_what"), "replay": r.get("replay")}
                path = os.path.join(EVID, "replay", prop, re.sub(r"\W", "_", t.name) + ".json")
                os.makedirs(os.path.dirname(path), exist_ok=True)
                with open(path, "w") as f:
                    json.dump(rec, f, indent=1)
                violations.append((t.name, path, "%s(%s): %s" % (ob.fn, r["cex_args"], r.get("cex_what"))))
            else:
                hname = t.harness
                finds = [f for f in known["findings"] if f["property"] == prop and f["harness"] == hname]
                seen_known = set()
                for i, viol in enumerate(r.get("violations", [])):
                    hit = next((f for f in finds if finding_matches(f, viol.get("args", {}))), None)
                    if hit is not None:
                        if hit["id"] not in seen_known:
                            seen_known.add(hit["id"])
                            known_lines.append("KNOWN-FINDING: property=%s %s %s" % (prop, hit["id"], hit["what"]))
                        continue
                    rec = {"property": prop, "tier": tier_name, "src": t.src, "fn": ob.fn, "param": t.param, "args": viol.get("args"), "kind": "z3",
                           "harness": hname, "what": viol.get("what")}
                    path = os.path.join(EVID, "replay", prop, re.sub(r"\W", "_", t.name) + "_%d.json" % i)
                    os.makedirs(os.path.dirname(path), exist_ok=True)
                    with open(path, "w") as f:
                        json.dump(rec, f, indent=1)
                    violations.append((t.name, path, viol.get("what")))
                if not any(vn == t.name for vn, _, _ in violations):
                    # every violation was a listed finding: the rest of the obligation was discharged
                    if not r.get("unknown", 0):
                        discharged += 1
                        sample["verdict"] = "confirmed_outside_known_classes"
                    else:
                        inconclusive += 1
        elif v == "cex_not_reproduced":
            harness_errors.append("%s: counterexample %s did not replay natively: %s" % (t.name, r.get("cex_args"), json.dumps(r.get("replay"))[:400]))
        elif v in ("pre_unsat", "crash"):
            harness_errors.append("%s: %s %s" % (t.name, v, (r.get("detail") or r.get("message") or "")[:600]))

    wall = time.time() - t0
    seen_ids = set()
    for line in sorted(set(known_lines)):
        fid = line.split()[2]
        if fid in seen_ids:  # one line per listed finding, whichever obligations reproduced it
            continue
        seen_ids.add(fid)
        print(line)
    for name, path, what in violations:
        print("VIOLATION property=%s replay=%s" % (prop, path))
        print("  %s: %s" % (name, what))
    for e in harness_errors:
        print("HARNESS-ERROR %s" % e)
    print("%s %s: obligations=%d discharged=%d inconclusive=%d violations=%d known=%d harness_errors=%d paths=%d wall=%.0fs" % (
        prop, tier_name, obligations, discharged, inconclusive, len(violations), len(set(known_lines)), len(harness_errors), evaluations, wall))
    for s in samples:
        print("  - %-55s %-28s paths=%-5s %ss" % (s["obligation"], s["verdict"], s["paths_or_queries"], s["wall_s"]))

    if not a.no_evidence and not a.only:
        ev = {
            "property_id": prop,
            "tier": tier_name,
            "seed": seed,
            "level": "other",
            "coverage": {
                "explanation": "bounded SMT-based symbolic execution of the real schemathesis functions (CrossHair 0.0.110 over z3; direct z3 "
                "queries for regular-language/table obligations). Each obligation is a PEP-316 contract over symbolic inputs; 'confirmed' = every "
                "path within the stated bounds explored and the negated postcondition unsat on each; counterexamples are replayed natively.",
                "obligations": obligations,
                "discharged": discharged,
                "inconclusive": inconclusive,
                "evaluations": evaluations,
                "distinct_nontrivial": nontrivial,
                "rule": "one evaluation = one symbolic path explored by CrossHair (or one z3 query); an obligation is non-trivial when it explored >= 2 "
                "paths/queries or produced a model; obligations are distinct by (harness, configuration)",
                "samples": samples,
                "functions_encoded": sorted(functions),
                "bounds": bounds,
                "outside_claim": sorted(outside),
                "known_findings_reproduced": sorted(set(known_lines)),
                "harness_errors": harness_errors,
                "solver_wall_s": round(solver_wall, 1),
                "checker_cmd": "./check %s --tier %s" % (prop, tier_name),
                "trusted_base": ["CPython 3.12", "crosshair-tool 0.0.110", "z3 (z3-solver wheel)", "vf/driver.py verdict parsing", "reference oracles in the harness files", "stubs listed in assumptions"],
                "repo": os.environ.get("VERIF_REPO", "/repo"),
            },
            "assumptions": sorted(stubs) + ["inconclusive obligations are not counted as discharged", "nothing is claimed outside the stated bounds"],
            "wall_s": round(wall, 1),
            "violations": len(violations),
        }
        os.makedirs(EVID, exist_ok=True)
        with open(os.path.join(EVID, "%s.json" % prop), "w") as f:
            json.dump(ev, f, indent=1, default=str)
    if violations:
        return 1
    if harness_errors:
        return 3
    return 0


if __name__ == "__main__":
    sys.exit(main())
