"""Shared declarations for harness modules (imported as `from vf.h import *`)."""
from __future__ import annotations

import os
from dataclasses import dataclass, field
from typing import Any, Dict, List, Optional, Sequence, Union

TIER = os.environ.get("VF_TIER", "quick")
QUICK = TIER == "quick"
THOROUGH = not QUICK
PROP = os.environ.get("VF_PROP", "")
_PARAM = os.environ.get("VF_PARAM")


def param(default: int = 0) -> int:
    """Index of the configuration this process instantiates (driver enumerates them)."""
    return int(_PARAM) if _PARAM not in (None, "") else default


def tier(quick: Any, thorough: Any) -> Any:
    return quick if QUICK else thorough


@dataclass
class Ob:
    """One proof obligation: a harness function (PEP-316 contract) decided by CrossHair ('ch')
    or a function that issues z3 queries itself ('z3')."""

    fn: str
    clause: str = ""  # which sentence of the property this obligation encodes
    kind: str = "ch"
    props: Sequence[str] = ()  # property ids served; default: from the file name
    tiers: Sequence[str] = ("quick", "thorough")
    timeout: Union[int, Dict[str, int]] = 60  # per_condition_timeout
    path_timeout: Optional[Union[int, Dict[str, int]]] = None
    params: Optional[Union[Sequence[int], Dict[str, Sequence[int]]]] = None
    param_names: Optional[Sequence[str]] = None  # human-readable name per param
    functions: Sequence[str] = ()  # real schemathesis functions executed symbolically
    bounds: Union[str, Dict[str, str]] = ""
    symbolic: str = ""
    outside: Sequence[str] = ()
    stubs: Sequence[str] = ()
    reach: bool = True  # run the reachability twin

    def for_tier(self, value: Any, tier_name: str) -> Any:
        if isinstance(value, dict) and set(value) <= {"quick", "thorough"}:
            return value.get(tier_name)
        return value


__all__ = ["Ob", "TIER", "QUICK", "THOROUGH", "PROP", "param", "tier", "Any", "Dict", "List", "Optional", "Sequence", "Union"]
