"""Run `crosshair check` on one condition and print path statistics.

Usage: python -m vf.chrun <per_condition_timeout> <per_path_timeout|-> <file.py:LINE>

Equivalent to `crosshair check --report_all --per_condition_timeout T file.py:LINE`
(same entry point, `crosshair.main.unwalled_main`), except that the debug hook of
`crosshair.core` is replaced by a counter, so that the number of explored
paths and the final path-tree statistics are available without `-v`'s cost.
The last stdout line is `VFSTATS <json>`.
"""
from __future__ import annotations

import json
import sys
import time


def main() -> int:
    timeout, path_timeout, target = sys.argv[1], sys.argv[2], sys.argv[3]
    import crosshair.core as core
    from crosshair.main import unwalled_main

    stats = {"iterations": 0, "tree": None, "end": None}

    def counting_debug(*a):
        if not a:
            return
        head = a[0]
        if head == "Iteration ":
            stats["iterations"] += 1
        elif head == "Path tree stats":
            stats["tree"] = str(a[1])
        elif head in ("Exhausted", "Aborted"):
            stats["end"] = " ".join(str(x) for x in a)

    core.debug = counting_debug
    argv = ["check", "--report_all", "--per_condition_timeout", timeout]
    if path_timeout != "-":
        argv += ["--per_path_timeout", path_timeout]
    argv.append(target)
    t0 = time.time()
    try:
        rc = unwalled_main(argv)
    except SystemExit as e:  # argparse
        rc = e.code
    finally:
        stats["wall_s"] = round(time.time() - t0, 2)
        sys.stdout.flush()
        print("VFSTATS " + json.dumps(stats))
    return int(rc or 0)


if __name__ == "__main__":
    sys.exit(main())
