"""Native (plain CPython, no CrossHair) replay of a harness call.

Usage: python -m vf.replay <harness_file.py> <fn> <args-repr>
Prints one line `VFREPLAY <json>`:
  pre_ok     - every `pre:` line of the contract holds for the arguments
  reproduced - the call returned a falsy value or raised an Exception
"""
from __future__ import annotations

import importlib.util
import inspect
import json
import re
import sys
import traceback


def load(path: str):
    name = "vfh_" + re.sub(r"\W", "_", path)[-60:]
    spec = importlib.util.spec_from_file_location(name, path)
    mod = importlib.util.module_from_spec(spec)
    sys.modules[name] = mod
    spec.loader.exec_module(mod)
    return mod


def contract_lines(fn, kind: str):
    doc = fn.__doc__ or ""
    out = []
    for line in doc.splitlines():
        m = re.match(r"\s*%s:\s*(.*)$" % kind, line)
        if m:
            out.append(m.group(1))
    return out


def run(path: str, fn_name: str, args_src: str, kwargs=None) -> dict:
    mod = load(path)
    fn = getattr(mod, fn_name)
    ns = dict(mod.__dict__)
    out = {"fn": fn_name, "args": args_src, "pre_ok": True, "reproduced": False, "result": None, "exception": None}
    try:
        if kwargs is not None:
            bound = inspect.signature(fn).bind(**kwargs)
        else:
            bound = eval("(lambda *a, **k: __sig.bind(*a, **k))(%s)" % args_src, dict(ns, __sig=inspect.signature(fn)))
        bound.apply_defaults()
    except Exception as e:
        out["pre_ok"] = False
        out["exception"] = "bind: %r" % (e,)
        return out
    env = dict(ns)
    env.update(bound.arguments)
    for expr in contract_lines(fn, "pre"):
        try:
            if not eval(expr, env):
                out["pre_ok"] = False
                out["failed_pre"] = expr
                return out
        except Exception as e:
            out["pre_ok"] = False
            out["failed_pre"] = "%s -> %r" % (expr, e)
            return out
    try:
        res = fn(*bound.args, **bound.kwargs)
        out["result"] = repr(res)[:300]
        out["reproduced"] = not res
    except Exception as e:
        out["exception"] = "".join(traceback.format_exception_only(type(e), e)).strip()[:600]
        out["traceback"] = traceback.format_exc()[-1500:]
        out["reproduced"] = True
    return out


def main() -> int:
    path, fn_name, args_src = sys.argv[1], sys.argv[2], sys.argv[3]
    kwargs = json.loads(sys.argv[4]) if len(sys.argv) > 4 else None
    out = run(path, fn_name, args_src, kwargs)
    sys.stdout.flush()
    print("VFREPLAY " + json.dumps(out))
    return 0


if __name__ == "__main__":
    sys.exit(main())
