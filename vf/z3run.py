"""Run a z3-kind obligation: python -m vf.z3run <harness_file.py> <fn> [replay-args-json]

The function returns a dict: queries, unsat, sat, unknown, violations[{args, what}], samples[], errors[].
Every violation it returns must already have been replayed against the real code by the function itself.
With replay-args the function is called as fn(replay=args) and must return True when the violation reproduces.
"""
import json
import sys

from vf.replay import load


def main() -> int:
    path, fn_name = sys.argv[1], sys.argv[2]
    mod = load(path)
    fn = getattr(mod, fn_name)
    if len(sys.argv) > 3:
        ok = fn(replay=json.loads(sys.argv[3]))
        print("REPRODUCED" if ok else "not reproduced")
        return 0
    try:
        out = fn()
    except Exception as e:
        import traceback

        out = {"queries": 0, "errors": ["%r\n%s" % (e, traceback.format_exc()[-1200:])]}
    sys.stdout.flush()
    print("VFZ3 " + json.dumps(out, default=str))
    return 0


if __name__ == "__main__":
    sys.exit(main())
