"""CPython `re` parse tree -> z3 regular expression, under `re.search` semantics (E2 engine).

`search_language(pattern)` returns a z3 regex R such that for every string s (over z3's character range):
    s in R  <=>  re.search(pattern, s) is not None
for the supported subset: literals, character classes (incl. negation, ranges, \\d \\s \\w categories), `.`,
groups, alternation, greedy/lazy/possessive repeats, and the anchors ^ / \\A at the very beginning and $ / \\Z at the very end
(`$` also matches before one final newline). Anything else raises Unsupported.

The translation is part of the trusted base; `self_check` validates it on every run by comparing z3 models of
membership / non-membership with `re.search`.
"""
from __future__ import annotations

import re
import sys
import unicodedata
from functools import lru_cache

import z3

try:
    import re._constants as sre
    import re._parser as sre_parse
except ImportError:  # pragma: no cover
    import sre_constants as sre
    import sre_parse

MAXREPEAT = sre_parse.MAXREPEAT
MAX_CHAR = 0x2FFFF  # z3's Unicode sort
HUGE = 2**31


class Unsupported(Exception):
    pass


def _ch(cp: int):
    return z3.StringVal(chr(cp))


def _range(lo: int, hi: int):
    if lo == hi:
        return z3.Re(_ch(lo))
    return z3.Range(_ch(lo), _ch(hi))


ANY = z3.AllChar(z3.ReSort(z3.StringSort()))


def _union(parts):
    parts = list(parts)
    if not parts:
        return z3.Empty(z3.ReSort(z3.StringSort()))
    if len(parts) == 1:
        return parts[0]
    return z3.Union(*parts)


@lru_cache(maxsize=None)
def _category_ranges(name: str):
    """Code point ranges (up to MAX_CHAR) of a `re` character category, computed from this interpreter's own tables."""
    pat = {"digit": r"\d", "space": r"\s", "word": r"\w"}[name]
    rx = re.compile(pat)
    ranges = []
    start = None
    for cp in range(0, MAX_CHAR + 1):
        if 0xD800 <= cp <= 0xDFFF:
            hit = False
        else:
            hit = rx.match(chr(cp)) is not None
        if hit and start is None:
            start = cp
        elif not hit and start is not None:
            ranges.append((start, cp - 1))
            start = None
    if start is not None:
        ranges.append((start, MAX_CHAR))
    return tuple(ranges)


def _category(cat):
    table = {
        sre.CATEGORY_DIGIT: ("digit", False),
        sre.CATEGORY_NOT_DIGIT: ("digit", True),
        sre.CATEGORY_SPACE: ("space", False),
        sre.CATEGORY_NOT_SPACE: ("space", True),
        sre.CATEGORY_WORD: ("word", False),
        sre.CATEGORY_NOT_WORD: ("word", True),
    }
    if cat not in table:
        raise Unsupported("category %r" % (cat,))
    name, negated = table[cat]
    r = _union(_range(a, b) for a, b in _category_ranges(name))
    if negated:
        return z3.Intersect(ANY, z3.Complement(r))
    return r


def _in(items):
    negate = False
    parts = []
    for op, av in items:
        if op is sre.NEGATE:
            negate = True
        elif op is sre.LITERAL:
            if av > MAX_CHAR:
                raise Unsupported("char beyond z3 range")
            parts.append(_range(av, av))
        elif op is sre.RANGE:
            lo, hi = av
            if hi > MAX_CHAR:
                raise Unsupported("char beyond z3 range")
            parts.append(_range(lo, hi))
        elif op is sre.CATEGORY:
            parts.append(_category(av))
        else:
            raise Unsupported("set item %r" % (op,))
    r = _union(parts)
    if negate:
        return z3.Intersect(ANY, z3.Complement(r))
    return r


def _seq(items):
    parts = [_node(op, av) for op, av in items]
    if not parts:
        return z3.Re(z3.StringVal(""))
    if len(parts) == 1:
        return parts[0]
    return z3.Concat(*parts)


def _node(op, av):
    if op is sre.LITERAL:
        if av > MAX_CHAR:
            raise Unsupported("char beyond z3 range")
        return z3.Re(_ch(av))
    if op is sre.NOT_LITERAL:
        return z3.Intersect(ANY, z3.Complement(z3.Re(_ch(av))))
    if op is sre.ANY:
        return z3.Intersect(ANY, z3.Complement(z3.Re(z3.StringVal("\n"))))
    if op is sre.IN:
        return _in(av)
    if op is sre.BRANCH:
        return _union(_seq(list(branch)) for branch in av[1])
    if op is sre.SUBPATTERN:
        group, add_flags, del_flags, sub = av
        if add_flags or del_flags:
            raise Unsupported("inline flags")
        return _seq(list(sub))
    if op in (sre.MAX_REPEAT, sre.MIN_REPEAT) or (hasattr(sre, "POSSESSIVE_REPEAT") and op is sre.POSSESSIVE_REPEAT):
        lo, hi, sub = av
        if hasattr(sre, "POSSESSIVE_REPEAT") and op is sre.POSSESSIVE_REPEAT:
            raise Unsupported("possessive repeat (not a regular-language operator in general)")
        inner = _seq(list(sub))
        if hi >= HUGE:  # incl. MAXREPEAT; bounds like 4294967292 (MAXREPEAT - k) are unbounded for every string shorter than 2**31
            if lo == 0:
                return z3.Star(inner)
            if lo == 1:
                return z3.Plus(inner)
            return z3.Concat(z3.Loop(inner, lo, lo), z3.Star(inner))
        if lo == 0 and hi == 1:
            return z3.Option(inner)
        if hi == 0:
            return z3.Re(z3.StringVal(""))
        return z3.Loop(inner, lo, hi)
    if hasattr(sre, "ATOMIC_GROUP") and op is sre.ATOMIC_GROUP:
        raise Unsupported("atomic group")
    raise Unsupported("node %r" % (op,))


FULL = z3.Full(z3.ReSort(z3.StringSort()))
EPS = z3.Re(z3.StringVal(""))
OPT_NL = z3.Option(z3.Re(z3.StringVal("\n")))


def search_language(pattern: str, full: bool = False):
    """z3 regex of all strings s with re.search(pattern, s); with full=True, of all s with re.fullmatch(body, s) where
    body is the pattern without its leading/trailing anchors (no surrounding text, no final newline)."""
    parsed = sre_parse.parse(pattern)
    if parsed.state.flags & ~(re.UNICODE):
        raise Unsupported("flags")
    items = list(parsed)
    if len(items) == 1 and items[0][0] is sre.BRANCH:
        # top-level alternation: anchors may sit inside the branches -> search language is the union of the branches' languages
        return _union(_search_items(list(branch), full) for branch in items[0][1][1])
    return _search_items(items, full)


def _search_items(items, full=False):
    prefix, suffix = (EPS, EPS) if full else (FULL, FULL)
    if items and items[0][0] is sre.AT:
        kind = items[0][1]
        if kind in (sre.AT_BEGINNING, sre.AT_BEGINNING_STRING):
            prefix = EPS
            items = items[1:]
        else:
            raise Unsupported("leading anchor %r" % (kind,))
    if items and items[-1][0] is sre.AT:
        kind = items[-1][1]
        if kind is sre.AT_END:
            suffix = EPS if full else OPT_NL
            items = items[:-1]
        elif kind is sre.AT_END_STRING:
            suffix = EPS
            items = items[:-1]
        else:
            raise Unsupported("trailing anchor %r" % (kind,))
    for op, av in items:
        if op is sre.AT:
            raise Unsupported("anchor inside the pattern")
        if op in (sre.ASSERT, sre.ASSERT_NOT, sre.GROUPREF, sre.GROUPREF_EXISTS):
            raise Unsupported("lookaround / backreference")
    _check_no_inner_anchor(items)
    return z3.Concat(prefix, _seq(items), suffix)


def _check_no_inner_anchor(items):
    for op, av in items:
        if op is sre.AT:
            raise Unsupported("anchor inside the pattern")
        if op in (sre.ASSERT, sre.ASSERT_NOT, sre.GROUPREF, sre.GROUPREF_EXISTS):
            raise Unsupported("lookaround / backreference")
        if op is sre.BRANCH:
            for b in av[1]:
                _check_no_inner_anchor(list(b))
        elif op is sre.SUBPATTERN:
            _check_no_inner_anchor(list(av[3]))
        elif op in (sre.MAX_REPEAT, sre.MIN_REPEAT):
            _check_no_inner_anchor(list(av[2]))


def schema_constraint(s, schema: dict):
    """z3 formula: string s satisfies {pattern, minLength, maxLength} of a JSON Schema string schema (re.search semantics)."""
    cs = []
    if "pattern" in schema:
        cs.append(z3.InRe(s, search_language(schema["pattern"])))
    if schema.get("minLength") is not None:
        cs.append(z3.Length(s) >= schema["minLength"])
    if schema.get("maxLength") is not None:
        cs.append(z3.Length(s) <= schema["maxLength"])
    return z3.And(*cs) if cs else z3.BoolVal(True)


def python_accepts(schema: dict, value: str) -> bool:
    if "pattern" in schema and re.search(schema["pattern"], value) is None:
        return False
    if schema.get("minLength") is not None and len(value) < schema["minLength"]:
        return False
    if schema.get("maxLength") is not None and len(value) > schema["maxLength"]:
        return False
    return True


def solve(constraints, timeout_ms: int = 10000):
    """-> ('sat', model_string) | ('unsat', None) | ('unknown', reason)"""
    s = z3.String("s")
    solver = z3.Solver()
    solver.set("timeout", timeout_ms)
    solver.add(constraints(s))
    r = solver.check()
    if r == z3.sat:
        return "sat", model_string(solver.model(), s)
    if r == z3.unsat:
        return "unsat", None
    return "unknown", solver.reason_unknown()


def _model_str(v) -> str:
    """Decode z3's escaped string value (\\u{XXXX}) into a Python str."""
    raw = v.as_string()
    return re.sub(r"\\u\{([0-9a-fA-F]+)\}", lambda m: chr(int(m.group(1), 16)), raw)


def model_string(model, s) -> str:
    return _model_str(model.eval(s, model_completion=True))


def self_check(pattern: str, timeout_ms: int = 5000):
    """Differential validation of the translation for one pattern: a z3 member must be matched by re.search and a
    z3 non-member must not. Returns (checked, disagreements[list])."""
    lang = search_language(pattern)
    bad = []
    checked = 0
    for positive in (True, False):
        s = z3.String("s")
        solver = z3.Solver()
        solver.set("timeout", timeout_ms)
        solver.add(z3.InRe(s, lang) if positive else z3.Not(z3.InRe(s, lang)))
        solver.add(z3.Length(s) <= 6)
        if solver.check() == z3.sat:
            value = model_string(solver.model(), s)
            checked += 1
            if (re.search(pattern, value) is not None) != positive:
                bad.append((pattern, value, positive))
    return checked, bad
