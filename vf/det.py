"""Determinism prelude: concrete stand-ins for the clock and uuid inside schemathesis modules.

CrossHair turns time.time()/time.monotonic() into symbolic floats (and forks on them) and re-executes the harness
once per path; identifiers and timestamps are not the subject of any property, so the engine modules get a concrete
counter clock and counter-based UUIDs. Installed per module (`module.time`, `module.uuid`), never globally.
"""
from __future__ import annotations

import types
import uuid as _uuid


class _Clock:
    def __init__(self):
        self.now = 1000.0

    def tick(self):
        self.now += 0.001
        return self.now


_CLOCK = _Clock()
fake_time = types.SimpleNamespace(
    time=_CLOCK.tick, monotonic=_CLOCK.tick, perf_counter=_CLOCK.tick, sleep=lambda s: None
)


class _Ids:
    def __init__(self):
        self.n = 0

    def uuid4(self):
        self.n += 1
        return _uuid.UUID(int=self.n)


_IDS = _Ids()
fake_uuid = types.SimpleNamespace(uuid4=_IDS.uuid4, UUID=_uuid.UUID)


def pin(*modules):
    for m in modules:
        if hasattr(m, "time") and isinstance(getattr(m, "time"), types.ModuleType):
            m.time = fake_time
        if hasattr(m, "uuid") and isinstance(getattr(m, "uuid"), types.ModuleType):
            m.uuid = fake_uuid


def reset():
    _CLOCK.now = 1000.0
    _IDS.n = 0
