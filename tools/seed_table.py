"""seed -> (property whose check is run, --only substring naming the obligation family that detects it, how the check came to detect it)."""
A = "harness written after the agent's report had been read"
B = "check existed before the report was read; caught as it was"
C = "check existed before the report was read; MISSED, then strengthened"
I = "round 2: detected by the unmodified check (independent)"
S = "round 2: MISSED by the unmodified check; obligation added / extended afterwards"
O = "round 2: MISSED; outside what the technique reaches here (see DESIGN.md section 8)"
I3 = "round 3 (after the round-2 extensions): detected by the unmodified check (independent)"
S3 = "round 3: MISSED by the unmodified check; obligation added / extended afterwards"
M3 = "round 3: MISSED; left as it is (see note)"
TABLE = {
    "C01-1": ("C01", "parameter_keywords", C), "C01-2": ("C01", "body_strategy_cache", C), "C02-1": ("C02", "output_filter", A), "C02-2": ("C02", "body_strategy_cache", A),
    "C03-1": ("C03", "positive_number_multiple", B), "C03-2": ("C03", "_cases", A), "C04-1": ("C04", "definition_selection", A), "C04-2": ("C04", "nullable_twice", A),
    "C05-1": ("C05", "plan", A), "C05-2": ("C05", "unit_consumer", A), "C06-1": ("C06", "base_path_follows", A), "C06-2": ("C06", "primitive_roundtrip", A),
    "C07-1": ("C07", "derived_schemas", A), "C07-2": ("C07", "cli_into", A), "C08-1": ("C08", "path_level_isolation", A), "C08-2": ("C08", "lookup_agreement", A),
    "C09-1": ("C09", "failure_data_source", A), "C09-2": ("C09", "request_data_sanitize_switch", A), "C10-1": ("C10", "pointer_rfc", B), "C10-2": ("C10", "status_tables", A),
    "C11-1": ("C11", "plan", A), "C11-2": ("C11", "unit_consumer", A), "C12-1": ("C12", "unique_inputs", A), "C12-2": ("C12", "unit_consumer_ctrl_c", A),
    "C14-1": ("C14", "token_cache", A), "C14-2": ("C14", "stateful_override", A), "C15-1": ("C15", "url_sanitized", A), "C15-2": ("C15", "customised_config", A),
    "C16-1": ("C16", "vcr_header_value", A), "C16-2": ("C16", "cassette_handler", A), "C17-1": ("C17", "inner_examples", A), "C17-2": ("C17", "placements", A),
    "C18-1": ("C18", "use_after_free_2", C), "C18-2": ("C18", "use_after_free_2", C), "C19-1": ("C19", "hook_history_2", C), "C19-2": ("C19", "auth_test_scope", B),
    "C20-1": ("C20", "generation_arguments", A), "C20-2": ("C20", "selection_counts", A),
    "R2-C01-1": ("C01", "convert", S), "R2-C01-2": ("C08", "merged_parameters", S), "R2-C02-1": ("C02", "labels", S), "R2-C02-2": ("C02", "empty_query_shapes", S),
    "R2-C03-1": ("C03", "negative_type", S), "R2-C03-2": ("C03", "template_components", S), "R2-C04-1": ("C04", None, O), "R2-C04-2": ("C04", "nullable_twice", S),
    "R2-C05-1": ("C05", "failure_identity", S), "R2-C05-2": ("C05", "failure_data_source", I), "R2-C06-1": ("C06", "path_value_on_wire", S), "R2-C06-2": ("C06", "query_values_on_wire", S),
    "R2-C07-1": ("C07", "resolved_filters", S), "R2-C07-2": ("C07", "resolved_filters", S), "R2-C08-1": ("C08", "lookup_agreement", I), "R2-C08-2": ("C08", "yaml_keys", S),
    "R2-C09-1": ("C09", "printed_block", S), "R2-C09-2": ("C09", "url_sanitized", S), "R2-C10-1": ("C10", "evaluate_reference", S), "R2-C10-2": ("C10", "derived_step", S),
    "R2-C11-1": ("C11", "stateful_loop", I), "R2-C11-2": ("C11", "probe_phase", S), "R2-C12-1": ("C12", "plan", I), "R2-C12-2": ("C12", "step_count_override", S),
    "R2-C14-1": ("C14", "probes_leave_configuration", S), "R2-C14-2": ("C14", "fixed_parameters_not_generated", S), "R2-C15-1": ("C15", "har_entry", S), "R2-C15-2": ("C15", "value_sanitized", S),
    "R2-C16-1": ("C16", "double_quoted", I), "R2-C16-2": ("C16", "har_entry", S), "R2-C17-1": ("C17", "attach_examples", S), "R2-C17-2": ("C17", "schema_examples", S),
    "R2-C18-1": ("C18", "prefix_identity", S), "R2-C18-2": ("C18", "availability_optional", S), "R2-C19-1": ("C19", "hooks_between_examples", S), "R2-C19-2": ("C19", "hook_history_2", S),
    "R2-C20-1": ("C20", "scalar_text", S), "R2-C20-2": ("C20", None, O),
    "R3-C03-1": ("C03", "negative_items", S3), "R3-C03-2": ("C03", "positive_array", I3), "R3-C06-1": ("C06", None, M3), "R3-C09-1": ("C09", "curl_argv", I3),
    "R3-C09-2": ("C09", "curl_argv", I3), "R3-C10-1": ("C10", "link_extraction", I3), "R3-C10-2": ("C10", "link_extraction", S3), "R3-C14-1": ("C14", "examples_respect_overrides", S3),
    "R3-C14-2": ("C14", "header_precedence", I3), "R3-C17-1": ("C17", "schema_examples", S3), "R3-C17-2": ("C17", "fixed_parameters", S3),
}
NOTES = {
    "R3-C06-1": "WSGI transport + werkzeug's choice of Content-Type for a multipart body without files: the harnesses execute the requests transport only; the WSGI / ASGI transports are outside (stated in C06's evidence)",
    "R3-C09-1": "caught because the harness replaces curl.quote by a placeholder and the change routes values through a new helper instead: what is detected is 'the command no longer quotes through shlex.quote', not the specific mis-escaping of $ inside double quotes",
    "R3-C03-2": "the sub-agent had no time for the full pinned suite on this change; I ran it myself (tools/confirm_seed.py R3-C03-2: 1749/1750, only the environment-absent id missing)",
    "R3-C17-2": "same function as R2-C14-2 (get_parameters_strategy), other mechanism; missed because the harness listed the required parameter first - order optional-first added; the obligation now serves C17 as well",
    "R2-C05-2": "the unmodified C05 check missed it; the unmodified C09 check (failure_data_source, same function as round-1 seed C09-1) caught it; that obligation now also serves C05",
    "R2-C01-2": "detected by the C08 check (the property that states the merge rule); the C01 check does not cover parameter merging",
    "R2-C09-2": "sanitize_url is checked by the C15 harness, which now also serves C09 (file C09C15_sanitization.py)",
    "R2-C04-1": "needs a multi-file document (references into other files resolved through ConvertingResolver's URL cache): documents are built in memory by the harnesses, file loading is not modelled",
    "R2-C20-2": "the effect (default values incl. null emitted with graphql_allow_null=False) arises inside hypothesis_graphql, which is not executed symbolically; asserting that client_schema carries no AST nodes would test an implementation detail",
}
