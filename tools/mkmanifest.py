#!/usr/bin/env python3
"""Regenerates /verif/MANIFEST.json from the table below (kept in one place so it stays valid)."""
import json
import os

ROOT = os.path.dirname(os.path.dirname(os.path.abspath(__file__)))

TRUST = ("Trusted: CPython, CrossHair 0.0.110's symbolic semantics of the Python operations used, z3, the driver's verdict parsing, the "
         "reference oracles written in the harness files, and the environment stubs listed in the evidence file. 'Confirmed' means all paths "
         "within the stated input bounds were explored; nothing is claimed outside them; inconclusive obligations are reported, not counted.")

# id -> (claimed?, level text, technique, design_ref, reason-if-not-claimed)
CHECKS = {
    "C10": ("Bounded symbolic execution of the real link-expression code: resolve_pointer against an RFC 6901 scanner for every pointer string "
            "up to the length bound; lexer/parser/evaluator against a reference reading of the runtime-expression grammar; status-code matching "
            "tables decided by z3 for all codes 100..599; link parameter extraction/override with symbolic values. A solver verdict over all "
            "strings within the bound is the right level: the interesting inputs (~01, '}' placement, wildcard keys) are rare points no sample hits.",
            "CrossHair symbolic execution (z3) of resolve_pointer/tokenize/parse/evaluate/match_status_code with symbolic strings and status codes; z3 integer tables",
            "DESIGN.md section 3 C10"),
}

CHECKS.update({
    "C03": ("Bounded symbolic execution of the coverage-phase value generators: _positive_number / cover_schema_iter / _positive_string / "
            "_positive_array with the numeric keywords as unbounded symbolic ints; every value yielded as valid is checked against the JSON-Schema "
            "meaning of the keywords, every value yielded as invalid against its description; case-level labels of _iter_coverage_cases are "
            "checked against their components. Boundary coincidences (0, equal bounds, weaker exclusive bound) are single points no test samples.",
            "CrossHair symbolic execution (z3) of _positive_number, cover_schema_iter, _positive_string, _positive_array, _iter_coverage_cases with symbolic schema keywords",
            "DESIGN.md section 3 C03"),
    "C18": ("Bounded symbolic execution of use_after_free / ensure_resource_availability over a hand-built ScenarioRecorder whose whole "
            "history (operations, ids, parent pointers incl. separate trees, every response status 100..599) is symbolic; the verdict is compared "
            "with the property text as a predicate. Covers every history within the length bound, which the demo-API tests cannot.",
            "CrossHair symbolic execution (z3) of the two checks + ScenarioRecorder.find_* + _is_prefix_operation over symbolic histories",
            "DESIGN.md section 3 C18"),
    "C19": ("Bounded symbolic execution of hook / auth-provider registration histories: to_filterable_hook, HookDispatcher, FilterSet, "
            "AuthStorage run on symbolic sequences of registrations (7 decorator forms, unregistration) and the resulting applicability is "
            "compared with each extension's own filters for every operation. Order-dependent state in closures is exactly what example tests miss.",
            "CrossHair symbolic execution (z3) of to_filterable_hook/HookDispatcher/AuthStorage over symbolic registration histories",
            "DESIGN.md section 3 C19"),
})

CHECKS.update({
    "C01": ("Translation validation of the schema rewrite by z3's regex/sequence theory: for every member of a generated family of "
            "{pattern, minLength, maxLength} schemas the real update_pattern_in_schema is run and z3 decides, for ALL strings, whether a string "
            "fully matching the rewritten pattern can violate the declared schema and whether a satisfiable schema was emptied; plus CrossHair "
            "runs of _distribute_length_constraints/_build_size (symbolic bounds), to_json_schema (readOnly/nullable), the per-location filters, "
            "the keyword whitelists of parameter conversion and the strategy caches (symbolic request sequences). Draws themselves are "
            "hypothesis-jsonschema's contract (trusted). Known findings: search-semantics junk, repeated unquantified atom, group length.",
            "z3 regular-language inclusion queries over all strings per rewritten schema (sre->z3 translation validated against re.search each run) + CrossHair symbolic execution of the conversion kernels",
            "DESIGN.md section 3 C01"),
})

CHECKS.update({
    "C09": ("Bounded symbolic execution of curl.generate with symbolic header values / body / method; the argv a POSIX shell would build is "
            "recovered exactly (shlex.quote replaced by a placeholder) and interpreted by a model of curl's option semantics; the request curl "
            "would send is compared with the original. Plus prepare_request with the sanitize switch and find_failure_data symbolically. "
            "Two listed known findings (empty header value, body starting with '@').",
            "CrossHair symbolic execution (z3) of curl.generate/_filter_headers/prepare_request/find_failure_data against a curl(1) option model",
            "DESIGN.md section 3 C09"),
    "C17": ("Bounded symbolic execution of the example extraction and combination code: produce_combinations with symbolic example counts, "
            "extract_inner_examples with symbolic entry kinds, extract_from_schema with symbolic placements on properties, extract_top_level / "
            "extract_from_schemas on real 3.0 and 2.0 operations with symbolic placement pairs; every declared example must reach a case unchanged.",
            "CrossHair symbolic execution (z3) of produce_combinations/extract_inner_examples/extract_from_schema/extract_top_level",
            "DESIGN.md section 3 C17"),
})

CHECKS.update({
    "C07": ("Bounded symbolic execution of the filter machinery: for each of ~70 enumerated filter configurations (every matcher kind as "
            "include and as exclude, pairs, triples) FilterSet.match runs on a SYMBOLIC operation (method spelling, path text, tags, operationId, "
            "deprecated / x-internal flags) and is compared with the reference reading 'some include (or none) and no exclude'; derived schemas "
            "(include/exclude chains, siblings) must offer and count exactly what their own chain says; FilterArguments.into is run on pairs of "
            "CLI options. Covers all operations within the string bounds for each configuration.",
            "CrossHair symbolic execution (z3) of FilterSet/Matcher/by_value/by_regex/expression filters/FilterArguments.into over symbolic operations",
            "DESIGN.md section 3 C07"),
})

CHECKS.update({
    "C04": ("Bounded symbolic execution of the conformance checks on real loaded schemas with symbolic responses: z3 proves the status-code "
            "tables equal their digit patterns for all codes 100..599; status_code_conformance, validate_response, content_type_conformance, "
            "response_headers_conformance, _coerce_header_value and run_checks are executed with symbolic status / Content-Type text / header "
            "values / body choice and compared with OpenAPI's precedence (explicit > NXX > default; schema of the matching media type). "
            "jsonschema's verdict on a concrete body is trusted.",
            "CrossHair symbolic execution (z3) of the conformance checks and validate_response; z3 integer tables for status-code patterns",
            "DESIGN.md section 3 C04"),
})

_ENGINE = ("Bounded symbolic execution of the engine's real consumer loop (unit.execute), ExecutionPlan.execute, worker_task, run_test, "
           "ExecutionControl, cached_test_func and the CLI's ExecutionContext.on_event on sequentialised schedules: the worker pool is replaced by a "
           "scripted queue whose content (within the grammar workers can emit), empty-poll positions, worker liveness, Ctrl-C position, the read at "
           "which the stop flag flips, max_failures and the fault class per pipeline stage are symbolic. Real thread interleavings are outside.")
CHECKS.update({
    "C05": (_ENGINE + " C05 asserts: nothing a worker reported is lost, every operation taken is accounted for, the exit code is non-zero iff a "
            "failure/error was reported. Known finding: unexpected exceptions from create_test leave worker_task.",
            "CrossHair symbolic execution (z3) of unit.execute/ExecutionPlan.execute/worker_task/run_test/on_event over symbolic event scripts, stop points and faults",
            "DESIGN.md section 3 C05"),
    "C11": (_ENGINE + " C11 asserts the protocol: start first, exactly one finish last, phases/suites/scenarios opened and closed once in order with "
            "matching ids, closing never without opening, statuses consistent, unclosed scenarios only when interrupted.",
            "CrossHair symbolic execution (z3) of unit.execute/ExecutionPlan.execute/worker_task/run_test over symbolic event scripts and stop points",
            "DESIGN.md section 3 C11"),
    "C12": (_ENGINE + " C12 asserts the limits: at most max-failures failures forwarded and later phases SKIP(failure limit reached), nothing forwarded / "
            "taken / started after a stop or Ctrl-C, the failure counter step from an arbitrary state (unbounded ints), unique-inputs never re-sends a request.",
            "CrossHair symbolic execution (z3) of ExecutionControl/unit.execute/ExecutionPlan.execute/cached_test_func over symbolic counters, hash sequences and stop points",
            "DESIGN.md section 3 C12"),
})

CHECKS.update({
    "C14": ("Bounded symbolic execution of the credential plumbing: CachingAuthProvider/KeyedCachingAuthProvider.get with a symbolic "
            "non-decreasing clock, symbolic cache keys and a lock stub through which a concurrent worker may refresh the same key (fetches of one "
            "key must be >= interval apart); prepare_headers with symbolic header-name spelling; get_strategy_kwargs / Override.for_operation "
            "with symbolic override sets; the override/auth block of add_coverage; the stateful before_call override hook run through the real "
            "state-machine loop. Real thread interleavings beyond the modelled one and real requests are outside.",
            "CrossHair symbolic execution (z3) of CachingAuthProvider.get, prepare_headers, get_strategy_kwargs, add_coverage, execute_state_machine_loop with symbolic clock/keys/lock hook/overrides",
            "DESIGN.md section 3 C14"),
    "C15": ("Bounded symbolic execution of sanitize_value / sanitize_url / configure / extend and of Case.as_curl_command with a symbolic "
            "secret drawn from an alphabet disjoint from all constant text: sensitive names (19 spellings incl. markers) are redacted at any "
            "nesting depth, userinfo containing '@'/':' is removed as a whole, runtime customisation changes exactly the configured set, the "
            "sanitize switch is honoured. Console/JUnit/HAR writers end to end are outside.",
            "CrossHair symbolic execution (z3) of sanitize_value/sanitize_url/configure/extend/prepare_request/as_curl_command with a symbolic secret",
            "DESIGN.md section 3 C15"),
})

CHECKS.update({
    "C16": ("Bounded symbolic execution of the report writers: write_double_quoted against an independent YAML 1.1 double-quoted decoder "
            "(one symbolic character per class with quote/backslash/space neighbours); the whole hand-built VCR document (real vcr_writer fed through a "
            "pre-filled queue) with a symbolic URL character, a symbolic latin-1 header character, every metadata/response/body shape, judged by "
            "PyYAML's safe_load and compared field by field; CassetteWriter.handle_event and JunitXMLHandler over symbolic scenario histories "
            "(no crash, every exchange delivered once). Characters crossing C boundaries are realised: decided one value per path over a stated finite domain.",
            "CrossHair symbolic execution (z3) of write_double_quoted/vcr_writer/CassetteWriter.handle_event/JunitXMLHandler.handle_event with symbolic characters and event histories; PyYAML as judge",
            "DESIGN.md section 3 C16"),
})

CHECKS.update({
    "C06": ("Bounded symbolic execution of the wire-level serializers: every OpenAPI 3 style x explode x type combination (28 configurations) and "
            "Swagger 2 collectionFormat run on symbolic item strings and decoded back by an independent decoder written from the OpenAPI 3.0.3 "
            "style table; primitives incl. 0/false/''; jsonify_python_specific_types and _stringify_value; RequestsTransport.serialize_case with "
            "symbolic media type / explicit Content-Type spelling / body kind; base_path under re-configuration. Percent-encoding and the URL "
            "join (urllib/requests byte-level code) are outside. Known finding: matrix explode=false drops the parameter name.",
            "CrossHair symbolic execution (z3) of serialize_openapi3_parameters/serialize_swagger2_parameters/jsonify/serialize_case against a style-table decoder",
            "DESIGN.md section 3 C06"),
    "C08": ("Bounded symbolic execution of operation collection on documents loaded inside the harness: get_all_operations / schema[path][method] / "
            "get_operation_by_id / get_operation_by_reference with symbolic collisions between path-level and operation-level parameters, symbolic "
            "placement of path-level parameters over consecutive path items, symbolic access sequences over the shared caches (incl. ~0/~1 paths), "
            "and symbolic malformed entries. YAML-vs-JSON typing and multi-file layouts are outside. Known finding: a non-object parameter entry aborts iteration.",
            "CrossHair symbolic execution (z3) of get_all_operations/_collect_operation_parameters/get_operation_by_id/get_operation_by_reference/OperationCache over symbolic documents and access orders",
            "DESIGN.md section 3 C08"),
})

CHECKS.update({
    "C02": ("Bounded symbolic execution of the labelling logic around negative generation: the real body of the openapi_cases composite is "
            "driven with a stub draw (symbolic presence of a value per location, 4 operation shapes, both mode lists) and the case / component "
            "labels, the positive fallback for parts that cannot be negated and the skip/discard decision are compared with the property; the "
            "output filter of negative_schema is captured and decided for symbolic numbers against the declared (draft 4) meaning; the strategy "
            "caches are run on symbolic request sequences; MutationContext.mutate is driven by symbolic draw choices (thorough tier). That a "
            "drawn instance of a mutated schema is invalid is the run-time filter's job (hypothesis-jsonschema and jsonschema trusted).",
            "CrossHair symbolic execution (z3) of the openapi_cases body / generate_parameter / any_negated_values / negative_schema filter / mutate with stubbed Hypothesis draws",
            "DESIGN.md section 3 C02"),
})

CHECKS.update({
    "C20": ("Selection / counts / targeting sentences only. Bounded symbolic execution of GraphQLSchema.get_all_operations, _should_skip, "
            "_measure_statistic with symbolic chains of name filters (offered == root Query/Mutation fields passing the filters == counts), "
            "of schema[root][field] over symbolic lookup sequences sharing the operation cache, and of the graphql_cases composite body with a stub "
            "draw (every draw must request exactly its field, on its root type, under the current allow_null / allow_x00 settings). The validity of "
            "documents produced by hypothesis_graphql (judged by graphql-core) cannot be executed symbolically and is NOT claimed.",
            "CrossHair symbolic execution (z3) of GraphQLSchema.get_all_operations/_measure_statistic/FieldMap/graphql_cases body with stubbed generator",
            "DESIGN.md section 3 C20"),
})

NOT_APPLICABLE = {
    "C13": "Seed reproducibility is a 2-run hyper-property of the whole program through Hypothesis' engine, its PRNG, identity-keyed caches and "
           "set iteration order; none of it can be made a symbolic variable of a bounded encoding, and the only solver-shaped fragment "
           "(seed += 1) decides nothing. Deciding it needs differential execution, a different technique (DESIGN.md section 5).",
}

PENDING = "no solver-based check has been built for this property yet in this session (planned: DESIGN.md section 3); nothing is claimed"


EXTRA = {
    "C02": " Also: which query values put nothing on the wire (is_non_empty_query), header/cookie negatability per location.",
    "C03": " Also: _negative_type (which wrong types are offered), _negative_items, the Template's container labels. Known finding: a parameter with bounds but no type has no valid baseline value, yet the cases carrying it are labelled positive.",
    "C04": " Also: empty / blank payloads declared as JSON.",
    "C05": " Also: Failure identity (==, hash, dict/set membership) over 7 failure classes; the capability probe under every requests exception class; the source of the data shown for a failure.",
    "C06": " Also: prepare_url on 12 percent-encoded path values; the query handed to the HTTP client for triples of 12 value shapes.",
    "C07": " Also: filters on $ref'd parameters and the operation / link counts against what is offered.",
    "C08": " Also: parameter names differing only by case; the YAML loader's construct_mapping on key nodes of any resolved tag.",
    "C09": " Also: the printed 'Reproduce with' block (format_failures) for command text incl. newlines; sanitize_url with port / userinfo; the case is unchanged by producing its command.",
    "C10": " Also: the body of into_step_input (falsy link values, arrays of objects in link bodies), trailing text after a reference name.",
    "C11": " Also: the probing phase closes with one PhaseFinished under every requests exception class.",
    "C12": " Also: the configured stateful_step_count (unbounded int) reaches the state machine settings.",
    "C14": " Also: parameters fixed by the user are removed from the generator's schema (required or optional, any order); ignored_auth's probes leave the configured headers intact.",
    "C15": " Also: multi-valued sensitive keys, URL port, HAR entries (URL, queryString, headers, cookies); redaction never touches the case that is sent.",
    "C16": " Also: the HAR writer over 6 payload byte shapes (invalid UTF-8 included) and URLs with credentials.",
    "C17": " Also: add_examples with unsendable examples at any position; oneOf / anyOf+oneOf / array-valued allOf examples; example-carrying parameters are removed from generation.",
    "C18": " Also: _is_prefix_operation over 6 x 6 templates and id forms 7 / '7'; generated optional parameters suppress the availability claim.",
    "C19": " Also: re-registration of the same function object; hooks (un)registered between two generated examples on all three scopes.",
    "C20": " Also: the text written for Date / Time / DateTime scalars (years of every digit count).",
}


def main():
    ids = [json.loads(l)["id"] for l in open(os.path.join(ROOT, "properties.jsonl"))]
    checks = []
    na = []
    for pid in ids:
        if pid in CHECKS:
            text, tech, ref = CHECKS[pid]
            text = text + EXTRA.get(pid, "") + " Obligations added after the seeding rounds are tabulated in DESIGN.md section 8; the evidence file lists every function encoded, its bounds and stubs."
            checks.append({
                "property_id": pid,
                "quick_cmd": "./check %s --tier quick" % pid,
                "thorough_cmd": "./check %s --tier thorough" % pid,
                "evidence_file": "/verif/evidence/%s.json" % pid,
                "replay_cmd_template": "./check --replay {path}",
                "engine": "crosshair-z3",
                "level_claimed": {"category": "other", "text": text, "design_ref": ref},
                "level_note": TRUST,
                "technique": tech,
            })
        else:
            na.append({"property_id": pid, "reason": NOT_APPLICABLE.get(pid, PENDING)})
    m = {
        "version": 1,
        "setup_cmd": "./setup.sh",
        "hooks": {
            "guard": "SCHEMATHESIS_VERIF",
            "enable": "No instrumentation is needed inside /repo: checks import /repo/src directly (PYTHONPATH=$VERIF_REPO/src) on every run; "
                      "./check exports SCHEMATHESIS_VERIF=1 but no source line reads it.",
            "baseline_off_cmd": "cd /repo && /venv/bin/python -m pytest -ra -q -p no:cacheprovider --timeout=900 --continue-on-collection-errors",
            "source_commits": [],
            "add_only": True,
        },
        "engines": [
            {"name": "crosshair-z3", "path": "/verif/vf/driver.py", "serves_properties": sorted(CHECKS),
             "kind_free_text": "solver-based checking of the real code: CrossHair symbolic execution of schemathesis functions over z3, plus direct z3 "
                               "queries (regular-language inclusion, integer tables); counterexamples replayed natively before being reported"},
        ],
        "checks": checks,
        "not_applicable": na,
        "notes": "All checks rebuild from $VERIF_REPO/src (default /repo/src) on every run; exit 0 = no unlisted violation, 1 = VIOLATION line, "
                 "3 = machinery failure. Known findings: /verif/known_findings.json (never written at run time).",
    }
    with open(os.path.join(ROOT, "MANIFEST.json"), "w") as f:
        json.dump(m, f, indent=1)
    print("checks:", [c["property_id"] for c in checks], "not_applicable:", [n["property_id"] for n in na])


if __name__ == "__main__":
    main()
