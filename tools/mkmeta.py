#!/usr/bin/env python3
"""Write /verif/seeded/<seed>/meta.json for every seed directory from: the patch (site), the agent's notes (what it needs to manifest),
my confirmation (confirm.json), the measured detection results (tools/seed_results.json) .
usage: mkmeta.py"""
import glob, json, os, re

ROOT = "/verif/seeded"
RESULTS = json.load(open("/verif/tools/seed_results.json"))
PROPS = {json.loads(l)["id"]: json.loads(l) for l in open("/verif/properties.jsonl")}


def site(patch: str):
    files = re.findall(r"^\+\+\+ b/(.+)$", patch, re.M)
    hunks = re.findall(r"^@@ [^@]+ @@ ?(.*)$", patch, re.M)
    return {"files": files, "hunk_contexts": [h for h in hunks if h]}


def needs(notes: str) -> str:
    lines = notes.splitlines()
    out, take = [], False
    for line in lines:
        low = line.lower()
        if line.startswith("#") or line.startswith("**"):
            if take and out:
                break
            take = any(w in low for w in ("need", "manifest", "trigger", "require"))
            continue
        if take and line.strip():
            out.append(line.strip())
    text = " ".join(out) if out else " ".join(l.strip() for l in lines if l.strip() and not l.startswith("#"))
    return text[:900]


for d in sorted(glob.glob(ROOT + "/*/")):
    name = os.path.basename(d.rstrip("/"))
    m = re.match(r"(R[23]-)?(C\d\d)-(\d)$", name)
    if not m:
        continue
    rnd, prop = (int(m.group(1)[1]) if m.group(1) else 1), m.group(2)
    patch = open(d + "patch.diff").read()
    notes = open(d + "notes.md").read() if os.path.exists(d + "notes.md") else ""
    confirm = json.load(open(d + "confirm.json")) if os.path.exists(d + "confirm.json") else None
    res = RESULTS.get(name, {})
    meta = {
        "seed": name,
        "round": rnd,
        "property": prop,
        "property_title": PROPS[prop].get("title"),
        "site": site(patch),
        "needs_to_manifest": needs(notes),
        "files": sorted(os.listdir(d)),
        "what_i_ran": {
            "confirmation": "tools/confirm_seed.py %s%s : fresh `git worktree add --detach /tmp/wt-confirm-%s HEAD` of /repo; demo_test.py without the change, `git apply patch.diff`, demo again, import check%s; worktree removed" % (
                name, "" if (rnd == 1 or (confirm or {}).get("suite")) else " --no-suite", name, "; pinned suite via tools/run_suite.py with individual re-runs of apparent new failures" if rnd == 1 else " (pinned-suite comparison: the sub-agent's run, summary in agent_suite_summary.txt)"),
            "confirmed": None if confirm is None else {"demo_passes_without_change": confirm["demo_without_change"]["passes"], "demo_fails_with_change": not confirm["demo_with_change"]["passes"],
                                                        "patch_applies": confirm["patch_applies"], "imports": confirm["imports_with_change"], "base": confirm["base"],
                                                        "suite": (confirm.get("suite") or {}).get("summary"), "new_failures": (confirm.get("suite") or {}).get("new_failures_after_individual_rerun")},
            "detection": "tools/seedtest.sh %s <property> quick : `git -C /repo apply patch.diff`, `./check <property> --tier quick --no-evidence`, `git -C /repo checkout -- .`" % name,
        },
        "detection": res,
    }
    json.dump(meta, open(d + "meta.json", "w"), indent=1)
print("ok")
