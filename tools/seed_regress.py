#!/usr/bin/env python3
"""Re-run every seeded change against the current checks (the obligation family named in tools/seed_table.py) and write tools/seed_results.json.
usage: seed_regress.py [seed ...]"""
import json, os, re, subprocess, sys
sys.path.insert(0, "/verif/tools")
from seed_table import TABLE, NOTES

path = "/verif/tools/seed_results.json"
results = json.load(open(path)) if os.path.exists(path) else {}
names = sys.argv[1:] or sorted(TABLE)
for name in names:
    prop, only, how = TABLE[name]
    entry = {"checked_with": "./check %s --tier quick%s" % (prop, " --only " + only if only else ""), "history": how}
    if name in NOTES:
        entry["note"] = NOTES[name]
    if only is None:
        entry["detected"] = False
    else:
        p = subprocess.run(["/verif/tools/seedtest.sh", name, prop, "quick", only], stdout=subprocess.PIPE, stderr=subprocess.STDOUT, text=True)
        m = re.search(r"-> exit (\d+)", p.stdout)
        log = open("/tmp/seedtest_%s_quick.log" % name).read()
        obligations = sorted(set(re.findall(r"replay=/verif/evidence/replay/\w+/([\w.]+?)\.json", log)))
        entry["exit"] = int(m.group(1)) if m else None
        entry["detected"] = bool(m) and m.group(1) == "1" and bool(obligations)
        entry["violating_obligations"] = obligations[:8]
    results[name] = entry
    json.dump(results, open(path, "w"), indent=1, sort_keys=True)
    print(name, entry.get("detected"), entry.get("exit"), flush=True)
