#!/usr/bin/env python3
"""Run the pinned suite on a checkout and compare with BASELINE.json stable_pass.
usage: run_suite.py <repo_dir> [-n JOBS] [pytest args...]   (exit 0 = every stable_pass test passed)"""
import json, os, subprocess, sys, tempfile
import xml.etree.ElementTree as ET

repo = sys.argv[1]
rest = sys.argv[2:]
base = json.load(open("/root/.vp/BASELINE.json"))
stable = set(base["stable_pass"])
out = tempfile.mktemp(suffix=".xml", dir="/tmp")
env = dict(os.environ, PYTHONPATH=os.path.join(repo, "src"))
env.pop("SCHEMATHESIS_VERIF", None)
cmd = ["/venv/bin/python", "-m", "pytest", "-q", "-p", "no:cacheprovider", "--timeout=900", "--continue-on-collection-errors",
       "--junitxml=" + out] + (rest or ["-n", "12"])
p = subprocess.run(cmd, cwd=repo, env=env, stdout=subprocess.PIPE, stderr=subprocess.STDOUT, text=True)
print(p.stdout[-1500:])
passed = set()
failed = set()
for tc in ET.parse(out).getroot().iter("testcase"):
    tid = "%s::%s" % (tc.get("classname"), tc.get("name"))
    bad = any(ch.tag in ("failure", "error", "skipped") for ch in tc)
    (failed if bad else passed).add(tid)
os.unlink(out)
missing = sorted(stable - passed)
print("stable_pass=%d passed_now=%d missing_or_failed=%d" % (len(stable), len(passed & stable), len(missing)))
for m in missing[:40]:
    print("  NOT PASSING:", m, "(failed)" if m in failed else "(absent)")
sys.exit(1 if missing else 0)
