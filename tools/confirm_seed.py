#!/usr/bin/env python3
"""Confirm a seeded change myself in a scratch worktree of /repo HEAD:
  demo passes without the change, fails with it; the pinned suite shows no new failure with it.
usage: confirm_seed.py <seed-name> [--no-suite]     (writes /verif/seeded/<seed-name>/confirm.json)"""
import json, os, subprocess, sys, shutil, time

name = sys.argv[1]
no_suite = "--no-suite" in sys.argv
D = "/verif/seeded/" + name
WT = "/tmp/wt-confirm-" + name
KNOWN_ENV = {"test.cli.test_validation::test_convert_workers[auto-8]", "test.test_app::test_app[flask]", "test.test_app::test_app[aiohttp]"}


def sh(cmd, **kw):
    return subprocess.run(cmd, shell=True, stdout=subprocess.PIPE, stderr=subprocess.STDOUT, text=True, **kw)


def demo():
    demo_file = os.path.join(D, "demo_test.py")
    env = dict(os.environ, PYTHONPATH=WT + "/src")
    env.pop("SCHEMATHESIS_VERIF", None)
    p = sh("/venv/bin/python -m pytest %s -q -p no:cacheprovider -x 2>&1 | tail -3" % demo_file, cwd=WT, env=env)
    ok = " passed" in p.stdout and " failed" not in p.stdout and "error" not in p.stdout.lower()
    return ok, p.stdout.strip()[-300:]


sh("git -C /repo worktree remove --force %s" % WT)
r = sh("git -C /repo worktree add -q --detach %s HEAD" % WT)
out = {"seed": name, "base": sh("git -C /repo rev-parse --short HEAD").stdout.strip(), "when": time.strftime("%Y-%m-%d %H:%M")}
try:
    ok0, t0 = demo()
    out["demo_without_change"] = {"passes": ok0, "tail": t0}
    a = sh("git -C %s apply %s/patch.diff" % (WT, D))
    out["patch_applies"] = a.returncode == 0
    ok1, t1 = demo()
    out["demo_with_change"] = {"passes": ok1, "tail": t1}
    imp = sh("/venv/bin/python -c 'import schemathesis, schemathesis.cli'", env=dict(os.environ, PYTHONPATH=WT + "/src"))
    out["imports_with_change"] = imp.returncode == 0
    if not no_suite:
        p = sh("python3 /verif/tools/run_suite.py %s" % WT)
        lines = [l.strip() for l in p.stdout.splitlines()]
        missing = [l.split("NOT PASSING: ")[1].rsplit(" (", 1)[0] for l in lines if "NOT PASSING:" in l]
        new = [m for m in missing if m not in KNOWN_ENV]
        # re-run apparent new failures individually (xdist flakiness)
        still = []
        for m in new:
            mod, test = m.split("::", 1)
            path = mod.replace(".", "/") + ".py"
            q = sh("/venv/bin/python -m pytest '%s::%s' -q -p no:cacheprovider 2>&1 | tail -2" % (path, test), cwd=WT, env=dict(os.environ, PYTHONPATH=WT + "/src"))
            if " passed" not in q.stdout:
                still.append(m)
        out["suite"] = {"summary": [l for l in lines if l.startswith("stable_pass=")], "not_passing": missing, "new_failures_after_individual_rerun": still}
    out["confirmed"] = bool(ok0 and not ok1 and out["patch_applies"] and out["imports_with_change"] and (no_suite or not out["suite"]["new_failures_after_individual_rerun"]))
finally:
    sh("git -C /repo worktree remove --force %s" % WT)
    shutil.rmtree(WT, ignore_errors=True)
json.dump(out, open(os.path.join(D, "confirm.json"), "w"), indent=1)
print(json.dumps(out, indent=1))
