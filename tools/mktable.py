#!/usr/bin/env python3
"""Print the summary table of DESIGN.md section 0 from the committed evidence files."""
import json, glob
SYM = {
 "C01": ("E2 + E1", "every string (unbounded) per rewritten schema of a ~1.5k-pattern family; quantifier/length ints; keyword pairs; nullable tri-state; strategy request sequences"),
 "C02": ("E1", "presence of a drawn value per location, 6 operation shapes, mode lists; generated number vs declared bound; query value shapes; strategy request sequences"),
 "C03": ("E1", "min/max/exclusive*/multipleOf, min/maxLength, min/maxItems as **unbounded ints**; type forms; template contents; mode subsets, unexpected-method sets"),
 "C04": ("E3 + E1", "status code (all 100..599 by z3; 100*H+r by E1), Content-Type text, header values, body choice incl. empty payloads, check outcomes"),
 "C05": ("E1", "queue content within the worker grammar, empty polls, worker liveness, stop-flag flip read, Ctrl-C position, max_failures, fault classes; failure identity; probe answers"),
 "C06": ("E1", "item strings per style x explode x type (28 configs), primitives, media type / Content-Type spelling, base-URL history, encoded path values, query value triples"),
 "C07": ("E1", "the *operation* (method spelling, path text, tags, operationId, flags) per enumerated filter configuration (69), derivation chains incl. $ref'd parameters and links, CLI option pairs"),
 "C08": ("E1", "name/location collisions (incl. case) of path- and operation-level parameters, placement over path items, access sequences, malformed entries, YAML key tags"),
 "C09": ("E1", "header value, body text/bytes, method, verify; sanitize switch; printed command text; URL userinfo / port; which case a failure belongs to"),
 "C10": ("E1 + E3", "pointer text <=4 (any Unicode), expression affixes, status 100..599 (z3), response/request values incl. falsy ids"),
 "C11": ("E1", "same scripts as C05, protocol postconditions; state-machine loop outcomes; probe answers"),
 "C12": ("E1", "counter state (unbounded ints), stop points, hash sequences, configured step count (unbounded), same scripts"),
 "C14": ("E1", "clock increments, interval, cache keys, a concurrent refresh during the lock wait, header spellings, override sets, fixed parameter subsets, probe answers"),
 "C15": ("E1", "the secret (alphabet disjoint from constant text), key spelling (19), 1-3 values, nesting, userinfo with `@`/`:`, port, customisation history, HAR entry shapes"),
 "C16": ("E1", "one character per class through write_double_quoted; one URL / latin-1 header character through the whole cassette; shapes; HAR payload bytes; event histories"),
 "C17": ("E1", "example counts, entry kinds (9 per property), placements (pairs) on real 3.0 / 2.0 operations, unsendable examples at any position"),
 "C18": ("E1", "the whole history: operations, ids, parent pointers incl. separate trees, every status 100..599; id forms 7 / '7'; origin of each parameter"),
 "C19": ("E1", "registration/unregistration/re-registration histories (15 variants per step), operation, scopes, events between examples; auth provider histories"),
 "C20": ("E1", "filter chains, lookup sequences, per-draw settings, date/time values of every digit count (*selection/targeting and scalar text only*)"),
}
print("| id  | engines | what is symbolic (quick tier) | obligations (discharged) | known findings reproduced | quick wall |")
print("|-----|---------|-------------------------------|--------------------------|---------------------------|-----------|")
for f in sorted(glob.glob("/verif/evidence/C*.json")):
    j = json.load(open(f)); c = j["coverage"]; pid = j["property_id"]
    if j.get("tier") != "quick" or pid not in SYM: continue
    eng, sym = SYM[pid]
    print("| %s | %s | %s | %d (%d) | %d | ~%.1f min |" % (pid, eng, sym, c["obligations"], c["discharged"], len(c.get("known_findings_reproduced", [])), j["wall_s"] / 60))
