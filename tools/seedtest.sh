#!/bin/sh
# usage: tools/seedtest.sh <seed dir under /verif/seeded> <property> [tier] [only-substring]   -- applies the seeded change to /repo, runs the check, reverts.
set -u
D="/verif/seeded/$1"; P="$2"; T="${3:-quick}"; O="${4:-}"
if [ -n "$(git -C /repo status --porcelain)" ]; then echo "/repo working tree not clean"; exit 2; fi
git -C /repo apply "$D/patch.diff" || { echo "patch does not apply"; exit 2; }
cd /verif && ./check "$P" --tier "$T" --no-evidence ${O:+--only "$O"} > "/tmp/seedtest_$(echo $1 | tr / _)_$T.log" 2>&1; rc=$?
git -C /repo checkout -- .
grep -E "^VIOLATION|HARNESS-ERROR|^$P " "/tmp/seedtest_$(echo $1 | tr / _)_$T.log" | head -6
echo "seed $1 property $P tier $T -> exit $rc"
exit 0
