#!/bin/sh
# MANIFEST.setup_cmd: build the overlay venv offline. Idempotent.
set -e
cd "$(dirname "$0")"
V=/verif/.venv
if [ ! -x "$V/bin/crosshair" ] || ! "$V/bin/python" -c "import crosshair, z3, schemathesis" 2>/dev/null; then
  rm -rf "$V"
  /venv/bin/python -m venv "$V"
  SP=$("$V/bin/python" -c "import sysconfig; print(sysconfig.get_paths()['purelib'])")
  printf '/venv/lib/python3.12/site-packages\n' > "$SP/verif_overlay.pth"
  PIP_NO_INDEX=1 "$V/bin/pip" install -q --no-index --find-links /opt/veriftools/wheels crosshair-tool z3-solver
fi
"$V/bin/python" -c "import crosshair, z3, schemathesis; print('setup ok', crosshair.__version__, z3.get_version_string())"
